"""Check framework: extract -> prove -> correspond -> search -> decide  (DESIGN.md sections 4, 5).

A property module (harness/props/cXX.py) defines

    ID, THEOREMS (names audited with #print axioms), PROOF_MODULES (lake targets), TRUSTED (strings)
    def run(ctx) -> None      # generates cases, runs implementation / model / spec oracle, reports into ctx

and reports through ctx:
    ctx.case(sample, nontrivial_key=None)     one evaluated case (for evidence)
    ctx.disagree(name, replay_dict)           model/implementation correspondence broken on an input
    ctx.violate(sig, replay_dict)             implementation violates the property on a concrete input
"""
from __future__ import annotations

import hashlib
import json
import os
import random
import re
import subprocess
import sys
import time

HERE = os.path.dirname(os.path.abspath(__file__))
VERIF = os.path.dirname(HERE)
LEAN = os.path.join(VERIF, "lean")
REPO = os.environ.get("VERIF_REPO", "/repo")
DRV = os.path.join(LEAN, ".lake", "build", "bin", "vncdrv")
ALLOWED_AXIOMS = {"propext", "Classical.choice", "Quot.sound"}
FORBIDDEN = re.compile(r"\bsorry\b|\badmit\b|^axiom |native_decide|bv_decide|implemented_by|\bunsafe |maxHeartbeats 0", re.M)


class Infra(Exception):
    """infrastructure failure: exit 2, never a verdict"""


def sh(cmd, cwd=None, timeout=3600, input=None):
    p = subprocess.run(cmd, cwd=cwd, stdout=subprocess.PIPE, stderr=subprocess.STDOUT, timeout=timeout,
                       input=input, text=True)
    return p.returncode, p.stdout


def strip_comments(src: str) -> str:
    # remove /- ... -/ (nested not handled beyond one level, good enough) and -- ... comments
    out = []
    i = 0
    depth = 0
    n = len(src)
    while i < n:
        if src.startswith("/-", i):
            depth += 1
            i += 2
        elif depth and src.startswith("-/", i):
            depth -= 1
            i += 2
        elif depth:
            i += 1
        elif src.startswith("--", i):
            j = src.find("\n", i)
            i = n if j < 0 else j
        else:
            out.append(src[i])
            i += 1
    return "".join(out)


class Ctx:
    def __init__(self, pid: str, tier: str, seed: int):
        self.pid = pid
        self.tier = tier
        self.seed = seed
        self.rng = random.Random((seed << 8) ^ int(hashlib.sha1(pid.encode()).hexdigest()[:8], 16))
        self.t0 = time.time()
        self.evaluations = 0
        self.nontrivial = set()
        self.samples = []
        self.broken = []        # (name, detail) obligations / correspondence that no longer check
        self.violations = []    # (sig, replay)
        self.disagreements = []  # (name, replay)
        self.stats = {}
        self.assumptions = []
        self.trusted = []
        self.obligations = 0
        self.discharged = 0
        self.axioms = {}
        self.checker_cmd = ""
        self.exhaustive = False
        self.rule = ""
        self.driver_ok = False
        self.notes = []

    # ---- scale by tier
    def n(self, quick: int, thorough: int) -> int:
        return thorough if self.tier == "thorough" else quick

    def count(self, key: str, k: int = 1):
        self.stats[key] = self.stats.get(key, 0) + k

    def case(self, sample=None, key=None):
        self.evaluations += 1
        if key is not None:
            self.nontrivial.add(key if isinstance(key, (str, int, bytes, tuple)) else repr(key))
        if sample is not None and len(self.samples) < 3:
            self.samples.append(sample)

    def disagree(self, name: str, replay: dict):
        if len(self.disagreements) < 20:
            self.disagreements.append((name, replay))

    def violate(self, sig: str, replay: dict):
        if len(self.violations) < 50:
            self.violations.append((sig, replay))

    # ---- tie to the source: tables + proofs
    def extract(self):
        rc, out = sh(["/venv/bin/python", os.path.join(VERIF, "tools", "extract_tables.py")],
                     timeout=120)
        if rc == 3:
            self.broken.append(("extract_tables", out.strip()[-400:]))
        elif rc != 0:
            raise Infra("extract_tables failed:\n" + out)

    def build(self, targets):
        """lake build the given targets; returns (ok, log)."""
        rc, out = sh(["lake", "build"] + list(targets), cwd=LEAN, timeout=3000)
        return rc == 0, out

    def prove(self, proof_modules, theorems):
        """Build the driver and the proof modules; audit axioms of the property theorems."""
        t = time.time()
        ok, log = self.build(["vncdrv"])
        self.driver_ok = ok and os.path.exists(DRV)
        if not ok:
            self.broken.append(("build:VncModel/vncdrv", tail_err(log)))
        self.obligations = len(theorems)
        self.checker_cmd = ("cd lean && lake build " + " ".join(proof_modules) +
                            " && lake env lean <audit: #print axioms for every registered theorem>")
        okp, logp = self.build(proof_modules)
        if not okp:
            self.broken.append(("build:" + ",".join(proof_modules), tail_err(logp)))
        # forbidden constructs in the sources (comments stripped)
        for root, _, files in os.walk(LEAN):
            if ".lake" in root:
                continue
            for f in files:
                if f.endswith(".lean"):
                    src = strip_comments(open(os.path.join(root, f)).read())
                    m = FORBIDDEN.search(src)
                    if m:
                        self.broken.append(("forbidden:" + f, "forbidden construct %r" % m.group(0)))
        if okp:
            self._audit(proof_modules, theorems)
        if self.tier == "thorough" and okp and os.environ.get("VERIF_NO_LEANCHECKER") != "1":
            mods = [m for m in proof_modules]
            rc, out = sh(["lake", "env", "leanchecker"] + mods, cwd=LEAN, timeout=3000)
            self.stats["leanchecker_rc"] = rc
            if rc != 0:
                self.broken.append(("leanchecker", out[-400:]))
            self.checker_cmd += " && lake env leanchecker " + " ".join(mods)
        self.stats["prove_s"] = round(time.time() - t, 1)

    def _audit(self, proof_modules, theorems):
        src = "".join("import %s\n" % m for m in proof_modules)
        src += "".join("#print axioms %s\n" % t for t in theorems)
        path = os.path.join(LEAN, ".lake", "audit_%s.lean" % self.pid)
        open(path, "w").write(src)
        rc, out = sh(["lake", "env", "lean", path], cwd=LEAN, timeout=1200)
        # parse: "'name' depends on axioms: [a, b]" or "'name' does not depend on any axioms"
        text = out.replace("\n ", " ")
        found = {}
        for m in re.finditer(r"'([^']+)' depends on axioms: \[([^\]]*)\]", text):
            found[m.group(1)] = [a.strip() for a in m.group(2).split(",") if a.strip()]
        for m in re.finditer(r"'([^']+)' does not depend on any axioms", text):
            found[m.group(1)] = []
        for t in theorems:
            key = t if t in found else ("Vnc." + t if "Vnc." + t in found else None)
            if key is None:
                self.broken.append(("theorem:" + t, "not found / does not elaborate: " + out.strip()[-300:]))
                continue
            ax = found[key]
            self.axioms[t] = ax
            bad = [a for a in ax if a not in ALLOWED_AXIOMS]
            if bad:
                self.broken.append(("axioms:" + t, "depends on " + ", ".join(bad)))
            else:
                self.discharged += 1

    # ---- the Lean driver (model and spec, executable)
    def drive(self, lines):
        """One op per line in, exactly one line out per op."""
        if not self.driver_ok:
            return None
        if not lines:
            return []
        # instrumentation: ask the driver which phases of the protocol model the run has reached (evidence only)
        want_cov = any(l.startswith("rfb-recv") for l in lines)
        data = "\n".join(lines) + "\n" + ("rfb-cov\n" if want_cov else "")
        if os.environ.get("VERIF_DUMP"):
            open(os.environ["VERIF_DUMP"], "w").write(data)
        def _limit():
            import resource
            resource.setrlimit(resource.RLIMIT_AS, (12 << 30, 12 << 30))     # a runaway model must fail, not eat the machine
        p = subprocess.run([DRV], input=data, stdout=subprocess.PIPE, stderr=subprocess.PIPE, text=True,
                           timeout=3000, preexec_fn=_limit)
        if p.returncode != 0:
            raise Infra("vncdrv exit %d: %s" % (p.returncode, p.stderr[-400:]))
        out = p.stdout.split("\n")
        if out and out[-1] == "":
            out.pop()
        if want_cov and out and out[-1].startswith("ok"):
            seen = set(self.stats.get("model_phases_reached", [])) | set(out.pop()[3:].split())
            self.stats["model_phases_reached"] = sorted(seen)
        if len(out) != len(lines):
            raise Infra("vncdrv produced %d lines for %d ops; first: %r" % (len(out), len(lines), out[:2]))
        return out


def tail_err(log: str) -> str:
    errs = [l for l in log.split("\n") if "error" in l.lower()]
    return "\n".join(errs[:6])[-600:] if errs else log[-400:]


def load_findings():
    fnd = []
    path = os.path.join(VERIF, "known_findings.txt")
    if os.path.exists(path):
        for l in open(path):
            m = re.match(r"finding:\s+property=(\S+)\s+sig=(\S+)\s+(.*)", l)
            if m:
                fnd.append((m.group(1), m.group(2), m.group(3).strip()))
    return fnd


def finish(ctx: Ctx, mod) -> int:
    """Decide (DESIGN.md section 5), write evidence and replay files, print the verdict lines."""
    os.makedirs(os.path.join(VERIF, "evidence"), exist_ok=True)
    os.makedirs(os.path.join(VERIF, "replays"), exist_ok=True)
    findings = [(p, s, t) for (p, s, t) in load_findings() if p == ctx.pid]
    known_sigs = {s: t for (_, s, t) in findings}
    lines = []
    rc = 0
    reported_known = set()
    new_viol = []
    for sig, replay in ctx.violations:
        if sig in known_sigs:
            if sig not in reported_known:
                reported_known.add(sig)
                lines.append("KNOWN-FINDING: property=%s %s (e.g. %s)" % (ctx.pid, known_sigs[sig], json.dumps(replay.get("input", ""))[:120]))
        else:
            new_viol.append((sig, replay))
    nviol = 0
    if new_viol:
        # one VIOLATION line per distinct signature
        seen = set()
        for sig, replay in new_viol:
            if sig in seen:
                continue
            seen.add(sig)
            h = hashlib.sha1(json.dumps(replay, sort_keys=True, default=str).encode()).hexdigest()[:10]
            path = os.path.join("replays", "%s-%s.json" % (ctx.pid, h))
            replay = dict(replay, property=ctx.pid, seed=ctx.seed, tier=ctx.tier, signature=sig,
                          broken_obligations=[b[0] for b in ctx.broken],
                          correspondence_disagreements=[d[0] for d in ctx.disagreements])
            json.dump(replay, open(os.path.join(VERIF, path), "w"), indent=1, default=str)
            lines.append("VIOLATION property=%s replay=%s" % (ctx.pid, path))
            nviol += 1
        rc = 1
    elif ctx.broken or ctx.disagreements:
        # an obligation or the correspondence no longer checks and the search found no failing input
        replay = {"property": ctx.pid, "seed": ctx.seed, "tier": ctx.tier,
                  "no_failing_input_found": True,
                  "broken_obligations": [{"name": n, "detail": d} for n, d in ctx.broken],
                  "correspondence_disagreements": [{"name": n, "replay": r} for n, r in ctx.disagreements[:5]],
                  "searched": {"evaluations": ctx.evaluations, "rule": ctx.rule}}
        h = hashlib.sha1(json.dumps(replay, sort_keys=True, default=str).encode()).hexdigest()[:10]
        path = os.path.join("replays", "%s-obligation-%s.json" % (ctx.pid, h))
        json.dump(replay, open(os.path.join(VERIF, path), "w"), indent=1, default=str)
        what = (ctx.broken[0][0] if ctx.broken else "correspondence:" + ctx.disagreements[0][0])
        lines.append("VIOLATION property=%s replay=%s %s no longer checks no-failing-input-found" % (ctx.pid, path, what))
        nviol = 1
        rc = 1
    wall = round(time.time() - ctx.t0, 2)
    cov = {
        "obligations": ctx.obligations,
        "discharged": ctx.discharged,
        "checker_cmd": ctx.checker_cmd,
        "trusted_base": ctx.trusted + ["axioms per theorem: " + json.dumps(ctx.axioms, sort_keys=True)],
        "evaluations": ctx.evaluations,
        "distinct_nontrivial": len(ctx.nontrivial),
        "rule": ctx.rule,
        "samples": ctx.samples or ["(no sample recorded)"],
        "traces_validated_against_impl": ctx.stats.get("traces_validated_against_impl", ctx.evaluations),
        "disagreements_checked": len(ctx.disagreements),
        "exhaustive": bool(ctx.exhaustive),
        "theorems": list(getattr(mod, "THEOREMS", [])),
        "stats": ctx.stats,
        "broken_obligations": [b[0] for b in ctx.broken],
        "known_findings_reproduced": sorted(reported_known),
        "notes": ctx.notes,
    }
    ev = {"property_id": ctx.pid, "tier": ctx.tier, "seed": ctx.seed, "level": "proof", "coverage": cov,
          "assumptions": ctx.assumptions, "wall_s": wall, "violations": nviol}
    json.dump(ev, open(os.path.join(VERIF, "evidence", ctx.pid + ".json"), "w"), indent=1, default=str)
    for l in lines:
        print(l)
    if rc == 0:
        print("PASS property=%s tier=%s seed=%d obligations=%d/%d evaluations=%d distinct=%d wall=%.1fs" % (
            ctx.pid, ctx.tier, ctx.seed, ctx.discharged, ctx.obligations, ctx.evaluations, len(ctx.nontrivial), wall))
    return rc


def main(argv):
    import importlib
    if len(argv) < 2:
        print("usage: check <ID> [quick|thorough] | check --replay <file>")
        return 2
    if argv[1] == "--replay":
        rp = json.load(open(argv[2]))
        pid = rp["property"]
        # generation is deterministic in (seed, tier): the run that produced the file is repeated
        tier = rp.get("tier", "quick")
        os.environ["VERIF_SEED"] = str(rp.get("seed", 0))
        os.environ["VERIF_REPLAY"] = os.path.abspath(argv[2])
    else:
        pid = argv[1]
        tier = argv[2] if len(argv) > 2 else os.environ.get("VERIF_TIER", "quick")
    seed = int(os.environ.get("VERIF_SEED", "0"))
    sys.path.insert(0, HERE)
    sys.path.insert(0, os.path.join(HERE, "props"))
    ctx = Ctx(pid, tier, seed)
    try:
        mod = importlib.import_module(pid.lower())
        ctx.trusted = list(getattr(mod, "TRUSTED", []))
        ctx.assumptions = list(getattr(mod, "ASSUMPTIONS", []))
        ctx.rule = getattr(mod, "RULE", "")
        ctx.extract()
        ctx.prove(mod.PROOF_MODULES, mod.THEOREMS)
        mod.run(ctx)
        return finish(ctx, mod)
    except Infra as e:
        print("INFRA-FAILURE property=%s: %s" % (pid, e))
        return 2
    except subprocess.TimeoutExpired as e:
        print("INFRA-TIMEOUT property=%s: %s" % (pid, e))
        return 2
    except Exception as e:  # a bug of the machinery is never a verdict
        import traceback
        traceback.print_exc()
        print("INFRA-FAILURE property=%s: %s: %s" % (pid, type(e).__name__, e))
        return 2


if __name__ == "__main__":
    sys.exit(main(sys.argv))
