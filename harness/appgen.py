"""vncdo as a whole, in-process: the real option parser, build_tool, VNCDoCLIFactory / VNCDoCLIClient, the Deferred chain,
with the reactor replaced by a virtual clock and the connection by an in-memory transport.

Used by C06 / C07 / C08 / C09.  The same session is replayed on the Lean model through the `app-*` / `rfb-*` driver ops.
"""
from __future__ import annotations
import io, os, sys, types
from unittest import mock
from rfbgen import *  # noqa
from rfbgen import _Rec
from twisted.internet import task, defer
from twisted.internet.error import ConnectionDone, ConnectionLost
from twisted.python.failure import Failure
from PIL import Image

TICK = 40960          # ticks per second


class FakeReactor(task.Clock):
    """task.Clock with the attributes vncdo uses on the reactor"""
    exit_status = None
    stopped_at = None
    running = False

    def stop(self):
        if self.stopped_at is None:
            self.stopped_at = self.seconds()

    def run(self, *a, **k):
        pass

    def callWhenRunning(self, f, *a, **k):
        f(*a, **k)


class AppCli(_Rec, vcommand.VNCDoCLIClient):
    def _fill(self, x, y, w, h, color):
        return super(_Rec, self).fillRectangle(x, y, w, h, color)

    def _captureSave(self, data, fp, *args, **kw):
        had_screen = self.screen is not None
        r = super()._captureSave(data, fp, *args, **kw)
        if isinstance(r, defer.Deferred) or not had_screen:
            return r            # nothing was (or could be) saved: the capture waits for the next update
        im = Image.open(fp).convert("RGB")
        self._t("save:%s:%d:%d:%d" % (fp.encode().hex(), im.size[0], im.size[1], fnv64(im.tobytes())))
        return r


class AppFactory(vcommand.VNCDoCLIFactory):
    protocol = AppCli

    def clientConnectionMade(self, p):
        p.transport.trace.append(("cb", "made"))
        super().clientConnectionMade(p)


def ticks(seconds: float) -> int:
    return int(round(seconds * TICK))


class Vncdo:
    """one run of `vncdo [options] words...`"""

    def __init__(self, words, delay=0, warp=1.0, timeout=None, force_caps=False, incremental=False, nocursor=False, password=None, cwd=None,
                 localcursor=False, no_desktop_resize=False):
        self.reactor = FakeReactor()
        self.trace = []
        self.connects = []
        argv = ["vncdo", "--delay", str(delay), "--warp", repr(warp)]
        if timeout is not None:
            argv += ["--timeout", repr(timeout)]
        if force_caps:
            argv.append("--force-caps")
        if incremental:
            argv.append("--incremental-refreshes")
        if nocursor:
            argv.append("--nocursor")
        if localcursor:
            argv.append("--localcursor")
        if no_desktop_resize:
            argv.append("--disable-desktop-resizing")
        if password is not None:
            argv += ["--password", password]
        argv += list(words)
        self.exit_code = None
        self.error = None
        self.factory = None
        outer = self

        def on_connect(kind, args, factory):
            # stands for HostnameEndpoint / UNIXClientEndpoint .connect: the REAL client.factory_connect runs (its errback glue included)
            d = defer.Deferred()
            outer.connects.append((factory, args[0] if args else None, args[1] if len(args) > 1 else None, None))
            outer.conn_deferred = d
            return d
        patches = [use_reactor(self.reactor), fake_endpoints(on_connect),
                   mock.patch.object(vcommand, "VNCDoCLIFactory", AppFactory), mock.patch.object(sys, "argv", argv),
                   mock.patch.object(vcommand, "setup_logging", lambda o: None)]
        self._patches = patches
        for p_ in patches:
            p_.__enter__()
        try:
            vcommand.vncdo()
        except SystemExit as e:
            self.exit_code = e.code
        except Exception as e:  # noqa
            self.error = exc_class(e)
        if self.connects:
            self.factory = self.connects[0][0]
            self._add_markers()
        self.proto = None

    def _add_markers(self):
        d = self.factory.deferred
        cbs = d.callbacks
        new = []
        trace = self.trace

        def marker(tok):
            def m(c):
                trace.append(("cb", tok))
                return c
            return ((m, (), {}), (defer.passthru, (), {}))
        self.ncmds = len(cbs) - 1
        for i, pair in enumerate(cbs[:-1]):
            new += [marker("start:%d" % i), pair, marker("finish:%d" % i)]

        def failed(f):
            # a command raised: Twisted skips the remaining callbacks; say so once, with the class of the exception
            trace.append(("cb", "chainfailed:" + exc_class(f.value)))
            return f
        new.append(((defer.passthru, (), {}), (failed, (), {})))
        new.append(cbs[-1])
        d.callbacks[:] = new

    def connect(self):
        p = self.factory.buildProtocol(None)
        p.transport = FakeTransport(self.trace)
        self.zlog = []
        p._zlib_stream = ZLog(p._zlib_stream, self.zlog)
        self.proto = p
        p.connectionMade()
        return p

    def feed(self, chunk):
        n0 = len(self.trace)
        exc = None
        try:
            with Budget(10):
                self.proto.dataReceived(bytes(chunk))
        except BaseException as e:  # noqa
            exc = exc_class(e)
        t = toks(self.trace[n0:])
        if exc:
            t.append("raise:" + exc)
        return t

    def fire(self):
        """advance the virtual clock to the next pending timer; returns (time in ticks, tokens)"""
        calls = self.reactor.getDelayedCalls()
        if not calls:
            return None, []
        # exactly ONE delayed call per step, in Twisted's order (due time, then creation order): simultaneous timers are
        # separate events, as for the model
        self.reactor._sortCalls()
        call = self.reactor.calls.pop(0)
        if call.getTime() > self.reactor.rightNow:
            self.reactor.rightNow = call.getTime()
        n0 = len(self.trace)
        call.called = 1
        call.func(*call.args, **call.kw)
        return ticks(self.reactor.seconds()), toks(self.trace[n0:])

    def lose(self, clean=True):
        n0 = len(self.trace)
        reason = Failure(ConnectionDone() if clean else ConnectionLost())
        try:
            self.proto.connectionLost(reason)
        except Exception as e:  # noqa  - the reactor logs an exception of connectionLost and carries on
            self.trace.append(("cb", "raise:" + exc_class(e)))
        return toks(self.trace[n0:])

    def connect_failed(self, cls="ConnectionRefusedError"):
        # the endpoint reports that the connection could not be made: whatever factory_connect attached to it runs
        from twisted.internet import error as terr
        exc = OSError(2, "No such file or directory") if cls == "OSError" else getattr(terr, cls)()
        self.conn_deferred.errback(Failure(exc))

    def status(self):
        return self.reactor.exit_status, (None if self.reactor.stopped_at is None else ticks(self.reactor.stopped_at))

    def pending_stop(self):
        """time (ticks) at which reactor.stop is scheduled, if any"""
        ts = [c.getTime() for c in self.reactor.getDelayedCalls() if getattr(c.func, "__name__", "") == "stop"]
        return ticks(min(ts)) if ts else None

    def close(self):
        if self.factory is not None:
            # a failed chain ends in a Failure nobody consumes; Twisted would report it at garbage collection (after the verdict)
            self.factory.deferred.addErrback(lambda f: None)
        for p_ in reversed(self._patches):
            p_.__exit__(None, None, None)
        self._patches = []


def cmd_tokens(words, files, delay):
    """the Cmd tokens of the model for a (valid) word list - a small transcription used only to feed `app-new`;
    the compiler itself is property C10"""
    out = []
    words = list(words)
    hxs = lambda s: s.encode().hex() or "-"
    while words:
        c = words.pop(0)
        if c == "key": out.append("keyPress:" + hxs(words.pop(0)))
        elif c in ("kdown", "keydown"): out.append("keyDown:" + hxs(words.pop(0)))
        elif c in ("kup", "keyup"): out.append("keyUp:" + hxs(words.pop(0)))
        elif c in ("move", "mousemove"): out.append("mouseMove:%d:%d" % (int(words.pop(0)), int(words.pop(0))))
        elif c == "click": out.append("mousePress:%d" % int(words.pop(0)))
        elif c in ("mdown", "mousedown"): out.append("mouseDown:%d" % int(words.pop(0)))
        elif c in ("mup", "mouseup"): out.append("mouseUp:%d" % int(words.pop(0)))
        elif c == "drag": out.append("mouseDrag:%d:%d" % (int(words.pop(0)), int(words.pop(0))))
        elif c == "type":
            for ch in words.pop(0):
                out.append("keyPress:" + hxs(ch))
                if delay: out.append("pauseDelay")
        elif c in ("pause", "sleep"): out.append("pauseArg:" + hxs(words.pop(0)))
        elif c == "capture": out.append("captureScreen:" + hxs(words.pop(0)))
        elif c == "rcapture": out.append("captureRegion:%s:%d:%d:%d:%d" % (hxs(words.pop(0)), int(words.pop(0)), int(words.pop(0)), int(words.pop(0)), int(words.pop(0))))
        elif c == "expect": out.append("expectScreen:%s:%s" % (hxs(words.pop(0)), hxs(words.pop(0))))
        elif c == "rexpect": out.append("expectRegion:%s:%d:%d:%s" % (hxs(words.pop(0)), int(words.pop(0)), int(words.pop(0)), hxs(words.pop(0))))
        elif c == "pastefile": out.append("paste:" + hxs(files[words.pop(0)].replace("\r\n", "\n")))
        else:
            raise ValueError(c)
        if delay and words:
            out.append("pauseDelay")
    return out
