"""Harness core: import the real vncdotool from /repo's working tree, in-memory
transport, recording client classes, call budget against spinning code.

Everything here runs the *implementation* in-process; nothing is mocked below the
transport (Twisted's Protocol/Deferred, PIL, zlib, Cryptodome are the real ones).
"""
from __future__ import annotations

import os
import signal
import sys
import logging

REPO = os.environ.get("VERIF_REPO", "/repo")
if sys.path[0] != REPO:
    sys.path.insert(0, REPO)
os.environ.setdefault("SIBSON_VNCDOTOOL_VERIF", "1")

logging.disable(logging.CRITICAL)

# ----------------------------------------------------------------------------- seams that do not depend on import style
# The code under test reaches the clock, the random source and the terminal through names it imports in whatever way its
# authors like (`import time` / `from time import time as _now`, `os.urandom` / `from os import urandom`, ...).  A harness
# that replaces `module.time` after the import breaks under a mere change of import style.  So, BEFORE vncdotool is imported,
# the standard-library functions themselves are replaced by thin delegating stubs: by default they are the real thing; a hook
# redirects them, and the clock only for callers inside the vncdotool package.
import builtins as _builtins, getpass as _getpass_mod, time as _time_mod  # noqa: E402

HOOKS = {"vclock": None,            # None, or a callable returning virtual seconds for callers inside vncdotool.loggingproxy
         "urandom": None,           # None, or a replacement for os.urandom
         "getpass": None, "input": None}
PROMPT_USER, PROMPT_PW = "prompted-user", "prompted"
_real_time, _real_strftime, _real_urandom = _time_mod.time, _time_mod.strftime, os.urandom


def _caller_in_proxy():
    f = sys._getframe(2)
    return f.f_globals.get("__name__", "") == "vncdotool.loggingproxy"


def _stub_time():
    vc = HOOKS["vclock"]
    return vc() if vc is not None and _caller_in_proxy() else _real_time()


def _stub_strftime(fmt, *a):
    vc = HOOKS["vclock"]
    if vc is not None and not a and _caller_in_proxy():
        return _real_strftime(fmt, _time_mod.gmtime(vc()))
    return _real_strftime(fmt, *a)


def _stub_urandom(n):
    h = HOOKS["urandom"]
    return h(n) if h is not None else _real_urandom(n)


def _stub_getpass(prompt="", *a, **k):
    h = HOOKS["getpass"]
    return h(prompt) if h is not None else PROMPT_PW            # never block on a prompt


def _stub_input(prompt=""):
    h = HOOKS["input"]
    return h(prompt) if h is not None else PROMPT_USER


_time_mod.time, _time_mod.strftime, os.urandom = _stub_time, _stub_strftime, _stub_urandom
_getpass_mod.getpass, _builtins.input = _stub_getpass, _stub_input

# scratch directories of the harness (tempfile.mkdtemp(prefix="verif-...")) are removed when the check process ends
import atexit as _atexit, shutil as _shutil, tempfile as _tempfile  # noqa: E402
_scratch = []
_real_mkdtemp = _tempfile.mkdtemp


def _mkdtemp(*a, **k):
    d = _real_mkdtemp(*a, **k)
    if os.path.basename(d).startswith("verif-"):
        _scratch.append(d)
    return d


_tempfile.mkdtemp = _mkdtemp
_atexit.register(lambda: [_shutil.rmtree(d, ignore_errors=True) for d in _scratch])

import vncdotool  # noqa: E402

assert os.path.realpath(os.path.dirname(vncdotool.__file__)) == os.path.realpath(
    os.path.join(REPO, "vncdotool")
), (vncdotool.__file__, REPO)

from twisted.python import log as _tlog  # noqa: E402

# twisted's log.msg is called on every handler; silence it cheaply
_tlog.msg = lambda *a, **k: None  # type: ignore

from vncdotool import rfb, client as vclient  # noqa: E402

rfb.log.msg = lambda *a, **k: None  # type: ignore


class Spin(BaseException):
    """The implementation exceeded its call budget (a spin is an observation)."""


import contextlib as _contextlib  # noqa: E402


def _vnc_modules():
    return [m for n, m in list(sys.modules.items()) if (n == "vncdotool" or n.startswith("vncdotool.")) and m is not None]


@_contextlib.contextmanager
def use_reactor(fake):
    """Everything in the vncdotool package that would reach the global Twisted reactor reaches `fake` instead - however the
    module got hold of it: a name bound by `from twisted.internet import reactor`, `import twisted.internet.reactor as r`,
    an attribute lookup `twisted.internet.reactor` at call time, or an import inside a function."""
    import twisted.internet
    real = sys.modules.get("twisted.internet.reactor")          # the real reactor, or the fake of an enclosing use_reactor
    if real is None:
        from twisted.internet import reactor as real  # noqa
    saved = []
    for m in _vnc_modules():
        for name, val in list(vars(m).items()):
            if val is real:
                saved.append((m, name, val))
                setattr(m, name, fake)
    had_attr = getattr(twisted.internet, "reactor", None)
    twisted.internet.reactor = fake
    sys.modules["twisted.internet.reactor"] = fake
    try:
        yield fake
    finally:
        sys.modules["twisted.internet.reactor"] = real
        if had_attr is not None:
            twisted.internet.reactor = had_attr
        for m, name, val in reversed(saved):
            setattr(m, name, val)


@_contextlib.contextmanager
def hook(name, value):
    """redirect one of the standard-library seams (HOOKS) for the duration of the block"""
    old = HOOKS[name]
    HOOKS[name] = value
    try:
        yield
    finally:
        HOOKS[name] = old


@_contextlib.contextmanager
def fake_endpoints(on_connect):
    """HostnameEndpoint / UNIXClientEndpoint as the code constructs them - whichever way it imports them - without a
    network: the constructor only remembers its arguments, connect(factory) calls on_connect(kind, args, factory) and returns
    what that returns."""
    from unittest import mock
    from twisted.internet import endpoints

    def mk(kind):
        def init(self, reactor_, *a, **k):
            self._verif = (kind, a, k)

        def connect(self, factory):
            return on_connect(kind, self._verif[1], factory)
        return init, connect
    ps = []
    for cls, kind in ((endpoints.HostnameEndpoint, "hostname"), (endpoints.UNIXClientEndpoint, "unix")):
        init, connect = mk(kind)
        ps += [mock.patch.object(cls, "__init__", init), mock.patch.object(cls, "connect", connect)]
    for p_ in ps:
        p_.start()
    try:
        yield
    finally:
        for p_ in reversed(ps):
            p_.stop()


class Budget:
    """Guard for code that may spin: a timer on the CPU time of this process (SIGPROF) raises Spin.

    CPU time, not wall-clock time: a spinning dispatch loop burns CPU and is cut off after `seconds` of it, while a process
    that is merely starved by other jobs on a loaded machine is not (a wall-clock budget produced a false "hang" when
    forty checks ran side by side).  A generous wall-clock alarm stays as a backstop for code that blocks without
    computing.  Pure-Python loops are interruptible by signals, so this is reliable for the dispatch loops of rfb.py /
    loggingproxy.py."""

    def __init__(self, seconds: float = 2.0):
        self.seconds = seconds

    def _fire(self, signum, frame):
        raise Spin()

    def __enter__(self):
        self._old = signal.signal(signal.SIGPROF, self._fire)
        self._old_alrm = signal.signal(signal.SIGALRM, self._fire)
        # repeating: code under test may swallow the exception (a bare `except:` around a callback, as in Twisted's
        # Deferred); the timer then fires again every 50 ms until the exception escapes
        signal.setitimer(signal.ITIMER_PROF, self.seconds, 0.05)
        signal.setitimer(signal.ITIMER_REAL, max(90.0, 30 * self.seconds), 0.05)
        return self

    def __exit__(self, *exc):
        # a timer may fire while we are in here (after the first firing it fires every 50 ms): first take the handlers away -
        # retrying if a Spin lands in between - then stop the timers, then restore.  (Without this a Spin raised inside
        # __exit__ left the timer armed, and the process died of SIGALRM at interpreter shutdown: exit 142 on two seeds.)
        while True:
            try:
                signal.signal(signal.SIGPROF, signal.SIG_IGN)
                signal.signal(signal.SIGALRM, signal.SIG_IGN)
                break
            except Spin:
                continue
        signal.setitimer(signal.ITIMER_PROF, 0)
        signal.setitimer(signal.ITIMER_REAL, 0)
        signal.signal(signal.SIGPROF, self._old)
        signal.signal(signal.SIGALRM, self._old_alrm)
        return False


class FakeTransport:
    """In-memory transport: records writes and closes into a shared trace."""

    addressFamily = 0

    def __init__(self, trace: list, tag: str = ""):
        self.trace = trace
        self.tag = tag
        self.closed = False

    def write(self, data):
        self.trace.append((self.tag + "write", bytes(data)))

    def writeSequence(self, seq):
        for d in seq:
            self.write(d)

    def loseConnection(self):
        self.closed = True
        self.trace.append((self.tag + "close",))

    def setTcpNoDelay(self, enabled):
        pass

    def getPeer(self):
        class P:
            host = "127.0.0.1"
            port = 1
        return P()

    def getHost(self):
        return self.getPeer()

    def registerProducer(self, *a):
        pass

    def unregisterProducer(self):
        pass

    def pauseProducing(self):
        pass

    def resumeProducing(self):
        pass


def exc_class(e: BaseException) -> str:
    """Small enum of exception classes (an exception is an observable)."""
    import struct
    if isinstance(e, Spin):
        return "spin"
    if isinstance(e, struct.error):
        return "struct"
    if isinstance(e, UnicodeError):
        return "unicode"
    if isinstance(e, OSError):
        return "os"
    if isinstance(e, ValueError):
        return "value"
    if isinstance(e, (IndexError, KeyError)):
        return "index"
    if isinstance(e, TypeError):
        return "type"
    if isinstance(e, StopIteration):
        return "stop"
    if isinstance(e, AssertionError):
        return "assert"
    if isinstance(e, AttributeError):
        return "attr"
    if isinstance(e, (MemoryError, OverflowError)):
        return "mem"
    if isinstance(e, ZeroDivisionError):
        return "zerodiv"
    if isinstance(e, RuntimeError) and "StopIteration" in str(e):
        return "stop"
    import zlib
    if isinstance(e, zlib.error):
        return "zlib"
    return "other:" + type(e).__name__


def hx(b: bytes) -> str:
    return bytes(b).hex()
