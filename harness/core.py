"""Harness core: import the real vncdotool from /repo's working tree, in-memory
transport, recording client classes, call budget against spinning code.

Everything here runs the *implementation* in-process; nothing is mocked below the
transport (Twisted's Protocol/Deferred, PIL, zlib, Cryptodome are the real ones).
"""
from __future__ import annotations

import os
import signal
import sys
import logging

REPO = os.environ.get("VERIF_REPO", "/repo")
if sys.path[0] != REPO:
    sys.path.insert(0, REPO)
os.environ.setdefault("SIBSON_VNCDOTOOL_VERIF", "1")

logging.disable(logging.CRITICAL)

import vncdotool  # noqa: E402

assert os.path.realpath(os.path.dirname(vncdotool.__file__)) == os.path.realpath(
    os.path.join(REPO, "vncdotool")
), (vncdotool.__file__, REPO)

from twisted.python import log as _tlog  # noqa: E402

# twisted's log.msg is called on every handler; silence it cheaply
_tlog.msg = lambda *a, **k: None  # type: ignore

from vncdotool import rfb, client as vclient  # noqa: E402

rfb.log.msg = lambda *a, **k: None  # type: ignore


class Spin(BaseException):
    """The implementation exceeded its call budget (a spin is an observation)."""


class Budget:
    """Guard for code that may spin: a timer on the CPU time of this process (SIGPROF) raises Spin.

    CPU time, not wall-clock time: a spinning dispatch loop burns CPU and is cut off after `seconds` of it, while a process
    that is merely starved by other jobs on a loaded machine is not (a wall-clock budget produced a false "hang" when
    forty checks ran side by side).  A generous wall-clock alarm stays as a backstop for code that blocks without
    computing.  Pure-Python loops are interruptible by signals, so this is reliable for the dispatch loops of rfb.py /
    loggingproxy.py."""

    def __init__(self, seconds: float = 2.0):
        self.seconds = seconds

    def _fire(self, signum, frame):
        raise Spin()

    def __enter__(self):
        self._old = signal.signal(signal.SIGPROF, self._fire)
        self._old_alrm = signal.signal(signal.SIGALRM, self._fire)
        # repeating: code under test may swallow the exception (a bare `except:` around a callback, as in Twisted's
        # Deferred); the timer then fires again every 50 ms until the exception escapes
        signal.setitimer(signal.ITIMER_PROF, self.seconds, 0.05)
        signal.setitimer(signal.ITIMER_REAL, max(90.0, 30 * self.seconds), 0.05)
        return self

    def __exit__(self, *exc):
        # a timer may fire while we are in here (after the first firing it fires every 50 ms): first take the handlers away -
        # retrying if a Spin lands in between - then stop the timers, then restore.  (Without this a Spin raised inside
        # __exit__ left the timer armed, and the process died of SIGALRM at interpreter shutdown: exit 142 on two seeds.)
        while True:
            try:
                signal.signal(signal.SIGPROF, signal.SIG_IGN)
                signal.signal(signal.SIGALRM, signal.SIG_IGN)
                break
            except Spin:
                continue
        signal.setitimer(signal.ITIMER_PROF, 0)
        signal.setitimer(signal.ITIMER_REAL, 0)
        signal.signal(signal.SIGPROF, self._old)
        signal.signal(signal.SIGALRM, self._old_alrm)
        return False


class FakeTransport:
    """In-memory transport: records writes and closes into a shared trace."""

    addressFamily = 0

    def __init__(self, trace: list, tag: str = ""):
        self.trace = trace
        self.tag = tag
        self.closed = False

    def write(self, data):
        self.trace.append((self.tag + "write", bytes(data)))

    def writeSequence(self, seq):
        for d in seq:
            self.write(d)

    def loseConnection(self):
        self.closed = True
        self.trace.append((self.tag + "close",))

    def setTcpNoDelay(self, enabled):
        pass

    def getPeer(self):
        class P:
            host = "127.0.0.1"
            port = 1
        return P()

    def getHost(self):
        return self.getPeer()

    def registerProducer(self, *a):
        pass

    def unregisterProducer(self):
        pass

    def pauseProducing(self):
        pass

    def resumeProducing(self):
        pass


def exc_class(e: BaseException) -> str:
    """Small enum of exception classes (an exception is an observable)."""
    import struct
    if isinstance(e, Spin):
        return "spin"
    if isinstance(e, struct.error):
        return "struct"
    if isinstance(e, UnicodeError):
        return "unicode"
    if isinstance(e, OSError):
        return "os"
    if isinstance(e, ValueError):
        return "value"
    if isinstance(e, (IndexError, KeyError)):
        return "index"
    if isinstance(e, TypeError):
        return "type"
    if isinstance(e, StopIteration):
        return "stop"
    if isinstance(e, AssertionError):
        return "assert"
    if isinstance(e, AttributeError):
        return "attr"
    if isinstance(e, (MemoryError, OverflowError)):
        return "mem"
    if isinstance(e, ZeroDivisionError):
        return "zerodiv"
    if isinstance(e, RuntimeError) and "StopIteration" in str(e):
        return "stop"
    import zlib
    if isinstance(e, zlib.error):
        return "zlib"
    return "other:" + type(e).__name__


def hx(b: bytes) -> str:
    return bytes(b).hex()
