"""C07 -- expect completes exactly when the screen matches, and keeps polling until then."""
from __future__ import annotations
from fractions import Fraction
from appsession import *  # noqa
from c06 import ref_crop

ID = "C07"
PROOF_MODULES = ["VncProofs.C06", "VncProofs.C07Sys"]
THEOREMS = ["Vnc.C07_complete_iff", "Vnc.C07_identical", "Vnc.C07_histogram_length", "Vnc.C07_box", "Vnc.C07_one_request_per_commit", "Vnc.C07_never_early",
            "Vnc.C06_commit_ends_update", "Vnc.C06_commit_without_waiter", "Vnc.sys_update_app", "Vnc.feed_updates_split", "Vnc.C07_sys_polls", "Vnc.C07_sys_completes"]
TRUSTED = [
    "Lean 4.33 kernel; standard axioms only",
    "Twisted's Deferred as in C06; Pillow: Image.open / histogram / crop (crop pads with black outside the image) are modelled as exact pixel functions",
    "the float comparison math.sqrt(sum/len) <= maxrms is a parameter of the model (env.within); the harness uses tolerances 0, 0.5, 1, 2.5, 10, 40 and checks the implementation against the exact rational comparison sum <= maxrms^2 * len (IEEE-754 correct rounding and monotonicity of / and sqrt are trusted; boundary sums are generated)",
]
ASSUMPTIONS = ["the awaited image is RGB (768 histogram bins); liveness as in C06 (an update without position-bearing rectangles does not re-trigger the comparison)"]
RULE = ("scripts of expect / rexpect over awaited images that are: the future screen, a sub-region of it, a permutation of its pixels (same histogram - must match), a near copy, an unrelated image; "
        "tolerances 0..40; update sequences in which the matching screen arrives first, later or never; offsets inside and partly outside the screen; "
        "non-trivial = distinct session in which an expect waited through at least one non-matching update")


def match(ref_rgb, box, exp_img, rms):
    """the property's definition, exact: RMS of the histogram difference within the tolerance"""
    if ref_rgb is None:
        return False
    w, h, data = ref_crop(ref_rgb, box)
    if w <= 0 or h <= 0:
        hist = [0] * 768
    else:
        hist = Image.frombytes("RGB", (w, h), data).histogram()
    e = exp_img.histogram()
    if len(hist) != len(e):
        return False
    s = sum((a - b) ** 2 for a, b in zip(hist, e))
    p, q = RMS[rms]
    return Fraction(s, len(hist)) <= Fraction(p, q) ** 2


def oracle(spec, res, size0):
    cmds = getattr(spec, "cmdtoks", None) or cmd_tokens(spec.words, {}, spec.delay)
    tl = [t for e in res["events"] for t in e[1]]
    ref = Canvas()
    upd_i = 0
    positional = [u for u in spec.updates if any(rc.kind != "qemu" for rc in u)]
    geom = size0
    waiting = None     # (cmd index, box, image, rms)
    polled = 0
    i = 0
    allowed = set()        # indices of the update requests the wait is entitled to: one per non-matching comparison
    while i < len(tl):
        t = tl[i]
        nxt = tl[i + 1] if i + 1 < len(tl) else None
        if waiting and t.startswith("w:03") and i not in allowed:
            return "expect (command %d): an update request outside the one-per-completed-update rhythm: %r" % (waiting[0], t), polled
        if t.startswith("desktop:"):
            geom = tuple(int(x) for x in t.split(":")[1:3])
        if t.startswith("commit:"):
            if upd_i < len(positional):
                for rc in positional[upd_i]:
                    if rc.kind == "desktop":
                        ref.resize(rc.w, rc.h)
                    for (x, y, w, h, px) in rc.paint:
                        ref.paint(x, y, w, h, px, spec.pf)
                upd_i += 1
            if waiting:
                ci, box, img, rms = waiting
                m = match(ref.rgb(), box, img, rms)
                if m:
                    if nxt != "finish:%d" % ci:
                        return "expect (command %d): the screen matches after this update but the wait did not complete (next: %r)" % (ci, nxt), polled
                    waiting = None
                else:
                    want = "w:" + struct.pack("!BBHHHH", 3, 1 if ref.rgb() is not None else 0, 0, 0, geom[0], geom[1]).hex()
                    if nxt != want:
                        return "expect (command %d): the screen does not match after this update; expected exactly one update request %r, got %r" % (ci, want, nxt), polled
                    after = tl[i + 2] if i + 2 < len(tl) else None
                    if after is not None and (after.startswith("w:03") or after.startswith("finish")):
                        return "expect (command %d): after a non-matching update the client did %r, %r" % (ci, nxt, after), polled
                    polled += 1
                    allowed.add(i + 1)
        elif t.startswith("start:"):
            ci = int(t[6:])
            c = cmds[ci].split(":")
            if c[0] in ("expectScreen", "expectRegion"):
                f = bytes.fromhex(c[1]).decode()
                img = Image.open(f)
                if c[0] == "expectScreen":
                    box, rms = (0, 0, img.size[0], img.size[1]), bytes.fromhex(c[2]).decode()
                else:
                    x, y = int(c[2]), int(c[3])
                    box, rms = (x, y, x + img.size[0], y + img.size[1]), bytes.fromhex(c[4]).decode()
                m = match(ref.rgb(), box, img, rms)
                if m:
                    if nxt != "finish:%d" % ci:
                        return "expect (command %d): the screen already matches but the command did not complete at once (next: %r)" % (ci, nxt), polled
                else:
                    want = "w:" + struct.pack("!BBHHHH", 3, 1 if ref.rgb() is not None else 0, 0, 0, geom[0], geom[1]).hex()
                    if nxt != want:
                        return "expect (command %d): no match yet, expected one update request %r, got %r" % (ci, want, nxt), polled
                    waiting = (ci, box, img, rms)
                    allowed.add(i + 1)
        elif t.startswith("finish:") and waiting and int(t[7:]) == waiting[0]:
            return "expect (command %d) completed although the screen does not match" % waiting[0], polled
        i += 1
    return None, polled


def cursor_expect_leg(ctx):
    """with a local cursor the pointer shape is part of the screen: an update that carries nothing but a cursor shape can be the
    one that makes the awaited image appear - the wait must then complete (and must not complete before)"""
    import os, tempfile
    from PIL import Image
    from rfbgen import new_client, feed_impl, server_init, Session, enc_raw, enc_cursor, toks
    r = ctx.rng
    tmpd = tempfile.mkdtemp(prefix="verif-c07-")
    for si in range(ctx.n(6, 40)):
        pf = vclient.RGB32
        W, H = 12, 8
        cw, ch = r.choice([2, 3, 8]), r.choice([2, 4])
        a, b = (r.randrange(256), r.randrange(256), r.randrange(256)), (r.randrange(256), r.randrange(256), r.randrange(256))
        if a == b:
            b = ((a[0] + 1) % 256, a[1], a[2])
        c, trace, _ = new_client("lib", pseudocursor=True)
        feed_impl(c, trace, [b"RFB 003.008\n" + bytes([1, 1]) + struct.pack("!I", 0) + server_init(W, H, pf, b"c")])
        sess = Session(pf)
        full = enc_raw(r, pf, 0, 0, W, H)
        full.body = b"".join(pixel_bytes(pf, a) for _ in range(W * H))
        feed_impl(c, trace, [sess.update([full])])
        want = Image.new("RGB", (W, H), a)
        want.paste(b, (0, 0, cw, ch))
        path = os.path.join(tmpd, "want%d.png" % si)
        want.save(path)
        done = []
        try:
            res = c.expectScreen(path, 0)
        except Exception as e:  # noqa
            ctx.violate("expect", {"input": {"option": "pseudocursor (--localcursor)", "screen": "uniform %r" % (a,), "awaited": "the same with a %dx%d box of %r at the origin" % (cw, ch, b),
                                             "updates": ["full raw update", "expectScreen(awaited, 0)"]},
                                   "observed": "expectScreen on a client that holds a screen raised %s instead of waiting" % exc_class(e),
                                   "how": "VNCDoToolClient with pseudocursor on an in-memory transport"})
            continue
        if hasattr(res, "addBoth"):
            res.addBoth(done.append)
        else:
            done.append(res)              # expectScreen returns the client itself when the screen already matches
        early = bool(done)
        cur = enc_cursor(r, pf, 0, 0, cw, ch)
        cur.body = b"".join(pixel_bytes(pf, b) for _ in range(cw * ch)) + b"\xff" * (((cw + 7) // 8) * ch)
        n0 = len(trace)
        feed_impl(c, trace, [sess.update([cur])])
        ctx.count("cursor_expect_sessions")
        ctx.case(None, key=("cursor-expect", si))
        if early or not done:
            ctx.violate("expect", {"input": {"option": "pseudocursor (--localcursor)", "screen": "uniform %r" % (a,), "awaited": "the same with a %dx%d box of %r at the origin" % (cw, ch, b),
                                             "updates": ["full raw update", "expectScreen(awaited, 0)", "cursor-shape-only update whose drawing produces the awaited image"]},
                                   "observed": ("the wait completed before the cursor was drawn" if early else "the screen equals the awaited image after the cursor update, but the wait did not complete (trace %r)" % toks(trace[n0:])[-3:]),
                                   "how": "VNCDoToolClient with pseudocursor on an in-memory transport"})


def run(ctx):
    cursor_expect_leg(ctx)
    r = ctx.rng
    n = ctx.n(160, 1200)
    lines, checks = [], []
    with Workdir():
        for si in range(n):
            spec = build_session(r, kinds=["expect", "expect", "rexpect", "rexpect", "pause", "key", "capture"], ncmd=r.randint(1, 5))
            # more awaited images: a permutation of the target (same histogram), a near copy (one pixel off)
            w, h = spec.size
            perm = list(spec.target_px)
            r.shuffle(perm)
            spec.images["e_perm.png"] = (w, h, perm)
            near = list(spec.target_px)
            near[r.randrange(len(near))] = rand_rgb(r)
            spec.images["e_near.png"] = (w, h, near)
            spec.words = [r.choice(["e_perm.png", "e_near.png", w_]) if w_.endswith(".png") and w_.startswith("e_") and r.random() < .35 else w_ for w_ in spec.words]
            spec.unsolicited = 0.3
            if si % 4 == 1:
                spec.resizes = True        # the server also announces new desktop sizes, in updates of their own or with content
            size0 = spec.size
            res = drive(r, spec)
            inp = {"words": spec.words, "delay": spec.delay, "warp": spec.warp, "size": list(size0),
                   "events": [(e[0], hx(e[1]) if e[0] == "recv" else "") for e in spec.events][:60]}
            rp = {"input": inp, "how": "the real vncdo() with a virtual clock; the comparison is recomputed from a reference canvas with exact rational arithmetic"}
            if res["error"] or not res["connects"]:
                ctx.violate("vncdo-rejects-valid-script", dict(rp, observed="vncdo() ended with %r" % (res["error"],)))
                continue
            bad, polled = oracle(spec, res, size0)
            ctx.count("non_matching_updates_polled", polled)
            ctx.case({"words": spec.words, "polled": polled} if len(ctx.samples) < 3 and polled else None, key=si if polled else None)
            if bad:
                ctx.violate("expect", dict(rp, observed=bad))
            elif res.get("stalled"):
                ctx.violate("expect-stalls", dict(rp, observed="the wait is neither complete nor polling: the connection is up, no timer is pending and nobody waits for the next update"))
            ml, chk = compare_with_model(ctx, spec, res, "model-vs-vncdo", inp)
            if chk:
                checks.append((len(lines), len(ml), chk))
                lines += ml
    mout = ctx.drive(lines)
    if mout is not None:
        for off, k, chk in checks:
            chk(mout[off:off + k])
