"""C17 -- vnclog records every input event once, in order, regardless of chunking."""
from __future__ import annotations
import io, shlex
from proxygen import *  # noqa
from vncdotool import client as vclient

ID = "C17"
PROOF_MODULES = ["VncProofs.C17", "VncProofs.Framing", "VncProofs.Forever", "VncProofs.Bridge"]
THEOREMS = ["Vnc.C16_progress", "Vnc.C16_no_spin", "Vnc.C17_chunk_independent", "Vnc.C17_chunkings", "Vnc.C17_prompt", "Vnc.C17_message", "Vnc.C17_messages",
            "Vnc.C17_handshake", "Vnc.C17_session", "Vnc.C17_record_key", "Vnc.C17_record_pointer", "Vnc.C17_clicks", "Vnc.C17_record_other", "Vnc.C17_fmt",
            "Vnc.C17_key_token", "Vnc.C16_type_len", "Vnc.proxy_type_len", "Vnc.Forever_own_script", "Vnc.Forever_names_unique", "Vnc.Forever_closed_final", "Vnc.Forever_name_second", "Vnc.Forever_old_loses",
            "Vnc.toV_wire", "Vnc.toV_wf", "Vnc.Bridge_messages", "Vnc.Bridge_session", "Vnc.Bridge_no_raise", "Vnc.Bridge_events"]
TRUSTED = [
    'VncModel/Forever.lean (the factory of `vnclog --forever`: connections, per-connection files, names) is tied to VNCLoggingServerFactory by the forever leg of this run (file names and contents after schedules of 1-3 viewers); files and time.strftime are modelled: a name is the second of the connect time plus a suffix, a write to a closed file raises',
    "Lean 4.33 kernel; standard axioms only",
    "VncModel/Proxy.lean (RFBServer as a buffering machine that consumes the type byte first - observationally the same as the Python handler that waits without consuming - and the recorder recStep) is tied to loggingproxy.py by this correspondence run: every recorder call, per chunk",
    "TYPE_LEN, REVERSE_MAP, the message numbers are re-extracted from the source on every run",
    "time.time is replaced by a virtual clock in ticks of 1/10000 s; '%.4f' of a difference of two such times prints the tick difference exactly for the magnitudes generated (< 10^4 s)",
]
ASSUMPTIONS = ["keysyms for which chr() is defined (<= 0x10FFFF) and that the output file can hold; others are the known finding keysym-not-recordable",
               "the recorder target (stdout / file) is an object with write(); time.time is patched to a virtual clock in ticks of 1/10000 s"]
RULE = ("viewer sessions under each banner (3.3/3.5/3.7/3.8) x security (None / VNC authentication / other type) x --password-required, messages of all seven understood "
        "types in bursts; each burst arrives at one instant and is cut into chunks in several ways (whole, byte-wise, random, per message); "
        "non-trivial = distinct (session, chunking) containing >= 2 key/pointer events")

KNOWN_SIG = "keysym-not-recordable"


def spec_entries(msgs_with_time, t0):
    """what the script must contain: one entry per key / pointer message, in order"""
    out = []
    last = t0
    mouse = None
    for meta, t in msgs_with_time:
        if meta[0] == "key":
            out.append(("key", meta[1], bool(meta[2]), t - last))
            last = t
        elif meta[0] == "ptr":
            out.append(("ptr", (meta[1], meta[2]) if mouse != (meta[1], meta[2]) else None, [b + 1 for b in range(8) if meta[3] >> b & 1], t - last))
            mouse = (meta[1], meta[2])
            last = t
    return out


def parse_entry(text):
    """one recorder call -> structured entry (or a string describing what is wrong with it)"""
    if not text.endswith(" \n") and text != "\n":
        return "entry does not end in ' \\n': %r" % text
    try:
        lex = shlex.shlex(io.StringIO(text), posix=True)
        lex.whitespace_split = True
        tk = list(lex)
    except ValueError as e:
        return "entry is not tokenisable: %r (%s)" % (text, e)
    if len(tk) < 2 or tk[0] != "pause":
        return "entry does not start with a pause: %r" % text
    try:
        ticks = round(float(tk[1]) * 10000)
    except ValueError:
        return "bad pause %r" % tk[1]
    if "%.4f" % (ticks / 10000.0) != tk[1]:
        return "pause not written with 4 decimals: %r" % tk[1]
    rest = tk[2:]
    if rest and rest[0] in ("keydown", "keyup"):
        if len(rest) != 2:
            return "key entry with %d words: %r" % (len(rest), text)
        tok = rest[1]
        ks = vclient.KEYMAP.get(tok) or (ord(tok) if len(tok) == 1 else None)
        if ks is None:
            return "key token %r does not name a key" % tok
        return ("key", ks, rest[0] == "keydown", ticks)
    mv = None
    clicks = []
    i = 0
    if rest[:1] == ["move"]:
        if len(rest) < 3:
            return "bad move: %r" % text
        mv = (int(rest[1]), int(rest[2]))
        i = 3
    while i < len(rest):
        if rest[i] != "click" or i + 1 >= len(rest):
            return "unexpected word %r in %r" % (rest[i], text)
        clicks.append(int(rest[i + 1]))
        i += 2
    return ("ptr", mv, clicks, ticks)


def vnclog_cli_leg(ctx):
    """the recorder's handshake parsing depends on ONE option, --password-required; it must be exactly what the user said,
    whatever else is on the command line (-p PASSWORD in particular is the password vnclog itself would use, nothing else).
    Then a 3.3 session with security None is recorded under each command line."""
    import io, os, sys, itertools, tempfile
    from unittest import mock
    from vncdotool import command as cmd
    tmpd = tempfile.mkdtemp(prefix="verif-c17-")
    for pwreq, with_p, listen in itertools.product([False, True], [None, "", "secret"], [False, True]):
        facs = []

        class Rx:
            exit_status = None

            def listenTCP(self, port, factory, *a, **k):
                facs.append(factory)
                return mock.Mock(getHost=lambda: mock.Mock(port=5999))

            def run(self, *a, **k):
                pass

            def spawnProcess(self, *a, **k):
                pass
        argv = ["vnclog", "-s", "h:1"] + (["--password-required"] if pwreq else []) + (["-p", with_p] if with_p is not None else []) + \
               (["--listen", "5999"] if listen else []) + [os.path.join(tmpd, "out.vdo")]
        with use_reactor(Rx()), mock.patch.object(cmd, "setup_logging", lambda o: None), mock.patch.object(sys, "argv", argv), \
                mock.patch.object(sys, "stderr", io.StringIO()):
            try:
                cmd.vnclog()
            except SystemExit:
                pass
        ctx.count("vnclog_command_lines")
        ctx.case(None, key=("vnclog-cli", pwreq, with_p, listen))
        if len(facs) != 1 or bool(facs[0].password_required) != pwreq:
            ctx.violate("vnclog-options", {"input": {"command_line": argv},
                                           "observed": "the proxy factory has password_required=%r; the command line says %r" % (facs and facs[0].password_required, pwreq),
                                           "how": "the real vnclog() entry point with a recording reactor"})
            continue
        # a viewer speaking RFB 3.3 (the server decides on the security type): with --password-required the 16-byte response
        # precedes ClientInit, without it ClientInit follows the version line at once
        fac = facs[0]
        rec = []
        fac.output = type("O", (), {"write": lambda self, s: rec.append(s)})()
        from twisted.internet import reactor as treactor
        cap = {}
        with mock.patch.object(treactor, "connectTCP", lambda h, p, f: cap.setdefault("f", f)):
            srv = fac.buildProtocol(None)
            srv.transport = FakeTransport([], "")
            srv.connectionMade()
        cl = cap["f"].buildProtocol(None)
        cl.transport = FakeTransport([], "")
        cl.connectionMade()
        srv.dataReceived(b"RFB 003.003\n" + (bytes(16) if pwreq else b"") + b"\x01" + struct.pack("!BBxxI", 4, 1, 0x61) + struct.pack("!BBxxI", 4, 0, 0x61))
        text = "".join(rec)
        if text.count("keydown a") != 1 or text.count("keyup a") != 1:
            ctx.violate("vnclog-options", {"input": {"command_line": argv, "viewer": "RFB 3.3, %s, key a down/up" % ("16-byte response" if pwreq else "no authentication")},
                                           "observed": "recorded %r" % text[:120], "how": "the factory built by vnclog() serving an in-memory viewer"})


def forever_leg(ctx):
    """`vnclog --forever DIR`: ONE factory serves any number of viewers, one script file per connection.  Every viewer's
    session is held to the property on its own - whatever other viewers connected before it, are connected at the same
    time, or leave while it is still going on."""
    import os, tempfile, shutil
    from twisted.python.failure import Failure
    from twisted.internet.error import ConnectionDone
    r = ctx.rng
    fv_lines = []
    named = [k for k in lp.REVERSE_MAP if k < 0x110000][:40]
    for si in range(ctx.n(60, 600)):
        d = tempfile.mkdtemp(prefix="verif-c17f-")
        try:
            nv = r.choice([1, 2, 2, 2, 3])
            overlapping = r.random() < .6
            same_second = nv > 1 and r.random() < .12
            plans = []
            lastpos = None
            for vi in range(nv):
                bursts = []
                for _ in range(r.randint(1, 4)):
                    ms = []
                    for _ in range(r.randint(1, 4)):
                        if r.random() < .5:
                            ks = r.choice(named) if r.random() < .3 else r.randrange(33, 127)
                            down = r.random() < .5
                            ms.append((struct.pack("!BBxxI", 4, down, ks), ("key", ks, down)))
                        else:
                            x, y, m = r.choice([0, 1, 10, 65535]), r.choice([0, 2, 20, 65535]), r.choice([0, 0, 1, 4, 5])
                            if lastpos is not None and not any(q[1][0] == "ptr" for b in bursts for q in b) and not any(q[1][0] == "ptr" for q in ms) and r.random() < .6:
                                x, y = lastpos          # this viewer starts where the previous viewer left the pointer
                            ms.append((struct.pack("!BBHH", 5, m, x, y), ("ptr", x, y, m)))
                    bursts.append(ms)
                for b in bursts:
                    for q in b:
                        if q[1][0] == "ptr":
                            lastpos = (q[1][1], q[1][2])
                plans.append([("connect", vi)] + [("burst", vi, b) for b in bursts] + [("disconnect", vi)])
            # one schedule: sequential sessions, or a random merge that keeps each viewer's own order
            sched = []
            if overlapping:
                idx = [0] * nv
                while any(idx[v] < len(plans[v]) for v in range(nv)):
                    v = r.choice([v for v in range(nv) if idx[v] < len(plans[v])])
                    sched.append(plans[v][idx[v]]); idx[v] += 1
            else:
                for pl in plans:
                    sched += pl
            t = r.randrange(1, 10 ** 5) * 10000
            ml = ["fv-new 0"]
            proxies, t_conn, msgs_t = {}, {}, {v: [] for v in range(nv)}
            fac = None
            excs = []
            nconn = 0
            descr = []
            for act in sched:
                if act[0] == "connect":
                    if nconn:
                        t += 0 if same_second else 10000 * r.randint(1, 3)
                    nconn += 1
                    px = Proxy(False, t, fac=fac, outdir=d)
                    fac = px.fac
                    proxies[act[1]] = px
                    t_conn[act[1]] = t
                    hs, _ = viewer_handshake(r, False)
                    px.viewer_sends(hs)
                    ml += ["fv-connect %d %d" % (act[1], t), "fv-recv %d %d %s" % (act[1], t, hx(hs))]
                    descr.append("t=%d viewer %d connects" % (t, act[1]))
                elif act[0] == "burst":
                    t += r.choice([0, 1, 3, 10000, 12345])
                    px = proxies[act[1]]
                    px.set_time(t)
                    _, _, exc = px.viewer_sends(b"".join(m[0] for m in act[2]))
                    ml.append("fv-recv %d %d %s" % (act[1], t, hx(b"".join(m[0] for m in act[2]))))
                    if exc:
                        excs.append(exc)
                    msgs_t[act[1]] += [(m[1], t) for m in act[2]]
                    descr.append("t=%d viewer %d sends %s" % (t, act[1], " ".join(hx(m[0]) for m in act[2])))
                else:
                    t += r.choice([0, 5, 10000])
                    px = proxies[act[1]]
                    px.set_time(t)
                    px.srv.connectionLost(Failure(ConnectionDone()))
                    ml.append("fv-lose %d" % act[1])
                    descr.append("t=%d viewer %d disconnects" % (t, act[1]))
            # the connections are gone: drop every reference to them, as the reactor does (a file that nobody closed explicitly
            # is flushed when its last reference goes away - not a loss)
            import gc
            for q in proxies.values():
                f = getattr(getattr(q.srv, "recorder", None), "__self__", None)
                if f is not None and hasattr(f, "closed") and not f.closed:
                    f.flush()          # what the interpreter does to a file nobody closed, at the latest when the process ends
            proxies.clear(); px = None; fac = None
            gc.collect()
            want = sorted(repr([tuple(e) for e in spec_entries(msgs_t[v], t_conn[v])]) for v in range(nv))
            got = []
            impl_files = []
            for fn in sorted(os.listdir(d)):
                with open(os.path.join(d, fn)) as f:
                    txt = f.read()
                got.append(repr([(lambda e: tuple(e) if not isinstance(e, str) else e)(parse_entry(ln)) for ln in txt.splitlines(True)]))
                # DIR/<yymmdd-HHMMSS>[-n].vdo -> (second, n)
                stem = fn[:-4] if fn.endswith(".vdo") else fn
                try:
                    import calendar, time as _t
                    sec = calendar.timegm(_t.strptime(stem[:13], "%y%m%d-%H%M%S"))
                    suffix = int(stem[14:]) if len(stem) > 13 else 1
                except ValueError:
                    sec, suffix = -1, -1
                impl_files.append("%d.%d:%s" % (sec, suffix, txt.encode("utf-8").hex()))
            got.sort()
            ml.append("fv-files")
            fv_lines.append((ml, sorted(impl_files), descr))
            ctx.count("forever_sessions_%d_viewers_%s" % (nv, "overlapping" if overlapping else "sequential") + ("_same_second" if same_second else ""))
            ctx.case(None, key=("forever", si))
            if excs or got != want:
                sig = "forever-scripts" + ("-same-second" if same_second else "-overlapping" if overlapping and nv > 1 else "")
                ctx.violate(sig, {"input": {"option": "--forever DIR (one script file per connection, one factory)", "viewers": nv, "schedule": descr},
                                  "observed": ("exception escaped dataReceived: %r" % excs) if excs else
                                              "the directory holds %d script(s) %s; the %d session(s) were %s" % (len(got), [g[:300] for g in got], nv, [w[:300] for w in want]),
                                  "how": "real VNCLoggingServerFactory with output = a directory, in-memory viewers, time.time / time.strftime of loggingproxy on a virtual clock"})
        finally:
            shutil.rmtree(d, ignore_errors=True)
    # correspondence: VncModel/Forever.lean (factory + connections + files) on the same schedules
    mout = ctx.drive([l for ml, _, _ in fv_lines for l in ml])
    if mout is not None:
        off = 0
        for ml, impl_files, descr in fv_lines:
            o = mout[off + len(ml) - 1]
            off += len(ml)
            model_files = sorted(":".join([x.split(":")[0].rsplit(".", 1)[0], x.split(":")[1]]) for x in o[3:].split(" ")) if o != "ok -" else []
            if model_files != impl_files:
                ctx.disagree("model-vs-forever-factory", {"input": {"schedule": descr}, "impl": [x[:200] for x in impl_files], "model": [x[:200] for x in model_files]})


def run(ctx):
    vnclog_cli_leg(ctx)
    forever_leg(ctx)
    r = ctx.rng
    n = ctx.n(150, 2500)
    lines, meta_all = [], []
    for si in range(n):
        pwreq = r.random() < .4
        hs, desc = viewer_handshake(r, pwreq)
        t0 = r.randrange(1, 10 ** 7) * 1
        bursts = []
        t = t0
        for _ in range(r.randint(1, 5)):
            t += r.choice([0, 1, 3, 10000, 12345, 599999, 36000000])
            bursts.append((t, gen_viewer_messages(r, r.randint(1, 6), allow_unrecordable=(r.random() < .08))))
        if si == 0:
            # corpus: the listed finding keysym-not-recordable
            bursts.append((t + 5, [(struct.pack("!BBxxI", 4, 1, 0x01000041), ("key", 0x01000041, True)), (struct.pack("!BBxxI", 4, 0, 0x61), ("key", 0x61, False))]))
        if r.random() < .5:
            # the handshake arrives with the first burst
            first = (bursts[0][0], [(hs, ("other",))] + bursts[0][1])
            bursts[0] = first
            pre = b""
        else:
            pre = hs
        msgs_t = [(m[1], bt) for bt, ms in bursts for m in ms]
        want = spec_entries(msgs_t, t0)
        unrec = any(m[0] == "key" and m[1] > 0x10FFFF for m, _ in msgs_t)
        ctx.count("hs_" + desc.replace(" ", "_") + ("_pwreq" if pwreq else ""))
        ref_script = None
        for variant in range(4):
            p = Proxy(pwreq, t0)
            ml = ["px-new %d %d" % (pwreq, t0)]
            got_calls = []
            prompt_bad = None
            excs = []
            if pre:
                fwd, recd, exc = p.viewer_sends(pre)
                ml.append("px-recv " + hx(pre))
                got_calls += recd
            done_msgs = 0
            impl_tokens = []
            for bt, ms in bursts:
                data = b"".join(m[0] for m in ms)
                if variant == 0 or len(data) < 2:
                    chunks = [data]
                elif variant == 1 and len(data) <= 300:
                    chunks = [data[i:i + 1] for i in range(len(data))]
                elif variant == 2:
                    chunks = [m[0] for m in ms]
                else:
                    cs = sorted(r.sample(range(1, len(data)), min(r.randint(1, 5), len(data) - 1)))
                    chunks = [data[a:b] for a, b in zip([0] + cs, cs + [len(data)])]
                p.set_time(bt)
                ml.append("px-time %d" % bt)
                ends = []
                acc = 0
                for m in ms:
                    acc += len(m[0])
                    ends.append(acc)
                fed = 0
                for ch in chunks:
                    fwd, recd, exc = p.viewer_sends(ch)
                    ml.append("px-recv " + hx(ch))
                    got_calls += recd
                    impl_tokens.append(["rec:" + x.encode("utf-8", "surrogatepass").hex() for x in recd])
                    fed += len(ch)
                    if exc:
                        excs.append(exc)
                    # promptness: entries of all messages completely contained in the prefix are written by now
                    complete = done_msgs + sum(1 for e in ends if e <= fed)
                    need = len(spec_entries(msgs_t[:complete], t0))
                    if len(got_calls) < need and not unrec and prompt_bad is None:
                        prompt_bad = "after %d bytes of the burst at t=%d, %d entries are written but %d messages are complete" % (fed, bt, len(got_calls), need)
                done_msgs += len(ms)
            rp = {"input": {"handshake": desc, "password_required": pwreq, "t0_ticks": t0, "variant": variant,
                            "stream": hx(pre + b"".join(m[0] for _, ms in bursts for m in ms)), "model_lines": ml},
                  "how": "real VNCLoggingServerProxy (in-memory pair), time.time patched; recorder calls compared with one entry per key/pointer message"}
            entries = [parse_entry(x) for x in got_calls]
            sig = KNOWN_SIG if unrec else "record"
            bad = next((e for e in entries if isinstance(e, str)), None)
            if excs:
                ctx.violate("recorder-exception", dict(rp, observed="exception escaped dataReceived: %r" % excs))
            elif bad:
                ctx.violate(sig, dict(rp, observed=bad))
            elif [tuple(e) for e in entries] != [tuple(x) for x in want]:
                k = next((i for i, (a, b) in enumerate(zip(entries, want)) if tuple(a) != tuple(b)), min(len(entries), len(want)))
                ctx.violate(sig, dict(rp, observed="entry %d: recorded %r, the session has %r (%d recorded, %d expected)" % (k, entries[k:k + 1], want[k:k + 1], len(entries), len(want))))
            elif prompt_bad:
                ctx.violate("late-entry", dict(rp, observed=prompt_bad))
            script = "".join(got_calls)
            if ref_script is None:
                ref_script = script
            elif script != ref_script and not unrec:
                ctx.violate("chunk-dependent", dict(rp, observed="script differs from the unsplit delivery: %r vs %r" % (script[-80:], ref_script[-80:])))
            nev = sum(1 for m, _ in msgs_t if m[0] in ("key", "ptr"))
            ctx.case({"handshake": desc, "password_required": pwreq, "script": script[:200]} if len(ctx.samples) < 3 and nev >= 2 else None,
                     key=(si, variant) if nev >= 2 else None)
            meta_all.append((len(lines), ml, impl_tokens, rp))
            lines += ml
    mout = ctx.drive(lines)
    if mout is not None:
        for off, ml, impl_tokens, rp in meta_all:
            mrec = []
            for i, l in enumerate(ml):
                if l.startswith("px-recv"):
                    mrec += [t for t in mout[off + i].split(" ") if t.startswith("rec:")]
            irec = [t for ch in impl_tokens for t in ch]
            # the handshake chunk's tokens are included in impl_tokens only for bursts; pre has no recorder calls
            if irec != mrec:
                k = next((i for i, (a, b) in enumerate(zip(irec, mrec)) if a != b), min(len(irec), len(mrec)))
                ctx.disagree("model-vs-recorder", {"input": rp["input"], "impl": [bytes.fromhex(x[4:]).decode("utf-8", "replace") for x in irec[k:k + 2]],
                                                    "model": [bytes.fromhex(x[4:]).decode("utf-8", "replace") for x in mrec[k:k + 2]], "at": k})
