"""C01 -- Server stream segmentation never changes client behaviour."""
from __future__ import annotations
import resource
from rfbgen import *  # noqa

ID = "C01"
PROOF_MODULES = ["VncProofs.C01", "VncProofs.System", "VncProofs.Framing"]
THEOREMS = ["Vnc.feed_feed", "Vnc.feedAll_flatten", "Vnc.chunkings_agree", "Vnc.rfb_progress", "Vnc.C01_seg_indep",
            "Vnc.C01_chunkings", "Vnc.C01_seg_indep_from", "Vnc.C01_observable", "Vnc.C01_vmware_no_match",
            "Vnc.C01_vmware_match", "Vnc.C01_vmware_pattern", "Vnc.Sys_seg_indep", "Vnc.Sys_chunkings", "Vnc.Sys_rechunk", "Vnc.framing_constants", "Vnc.framing_constants_need"]
TRUSTED = [
    "Lean 4.33 kernel; standard axioms only",
    "VncModel/Rfb.lean (every _handle* state of RFBClient, vncConnectionMade/vncRequestPassword of the three client classes, VMWareClient.dataReceived) is tied to rfb.py / client.py by this correspondence run: same chunks to implementation and model, outputs compared token by token (callbacks with arguments, writes, close, exception class)",
    "zlib.decompressobj is a parameter of the model (the inflated output of each decompress call is recorded from the implementation and replayed to the model); the theorems hold for every inflate behaviour",
    "Twisted transport rule: after loseConnection no further chunk is delivered; an exception escaping dataReceived ends the connection (traces are compared up to the first close/raise)",
    "Pillow (screen pixels compared between chunkings on the implementation side only)",
]
ASSUMPTIONS = [
    "VMware variant: a 20-byte chunk matching the byte pattern is the documented exception; if such a chunk is cut out of the middle of another message the workaround also fires (documented limitation in client.py) - counted as vmware_midmessage_matches, not a violation",
]
RULE = ("sessions = handshake variant (3.3/3.7/3.8/3.889/4.x/5.0/odd banners, None or VNC auth, extra security types) + 0..6 server messages "
        "(FramebufferUpdate with 0..5 rectangles in Raw/CopyRect/RRE/CoRRE/Hextile/ZRLE/cursor/DesktopSize/QEMU-ext, LastRect, Bell, ServerCutText, "
        "SetColourMapEntries) in the pixel format in force, every ninth session followed by a run of 300..1100 small messages; each delivered whole, byte-wise, cut at every message boundary +-1, 2 random chunkings, one "
        "gluing chunking, one cut at the start of every large block, one cut at every block boundary of the client (measured); base / library / CLI / VMware client classes; non-trivial = distinct (session, chunking) with more than one chunk")


def arm_waiter(c, trace):
    """an application waiting for updates (as capture/expect do): its Deferred must fire at every commitUpdate"""
    from twisted.internet.defer import Deferred

    def fired(cl):
        trace.append(("cb", "fired"))
        arm_waiter(c, trace)
        return cl
    c.deferred = Deferred()
    c.deferred.addCallback(fired)


def run_chunks(kind, opts, chunks):
    c, trace, zlog = new_client(kind, **opts)
    if kind != "base":
        arm_waiter(c, trace)
    per = feed_impl(c, trace, chunks)
    return c, per, zlog


def block_starts(kind, opts, stream):
    """offsets at which the real client, given the whole stream at once, starts to wait for its next block, with the size it
    asks for (measured by wrapping `expect` on a throw-away instance; only used to CHOOSE chunkings - any list is sound)"""
    offs = []
    try:
        c, trace, zlog = new_client(kind, **opts)
        if kind != "base":
            arm_waiter(c, trace)
        orig = c.expect
        total = len(stream)

        def expect(handler, size, *a, **k):
            try:
                offs.append((total - len(c._packet), size))
            except Exception:
                pass
            return orig(handler, size, *a, **k)
        c.expect = expect
        feed_impl(c, trace, [stream])
    except BaseException as e:
        if type(e).__name__ in ("Spin", "KeyboardInterrupt", "SystemExit"):
            raise
    return [(o, z) for o, z in offs if 0 < o < len(stream)]


def vm_matches(ch):
    pat = bytes(vclient.VMWareClient.SINGLE_PIXEL_UPDATE)
    return len(ch) == 20 and ch[0] == pat[0] and ch[2:16] == pat[2:16]


def vm_expected(opts, chunks):
    """the documented behaviour: a matching chunk is dropped and answered with a full refresh request"""
    c, trace, zlog = new_client("lib", **opts)
    arm_waiter(c, trace)
    for ch in chunks:
        if vm_matches(ch):
            try:
                if getattr(c, "width", None) is None or getattr(c, "height", None) is None:
                    c.framebufferUpdateRequest()           # before ServerInit there is no geometry: whatever that does
                else:
                    # "answered with a full refresh request": non-incremental, whole desktop - written out here, not taken
                    # from the defaults of the code under test
                    c.transport.write(struct.pack("!BBHHHH", 3, 0, 0, 0, c.width, c.height))
            except Exception as e:  # noqa
                trace.append(("cb", "raise:" + exc_class(e)))
                break
        else:
            per = feed_impl(c, trace, [ch])
            if per and per[-1] and per[-1][-1].startswith("raise:"):
                trace.append(("cb", per[-1][-1]))
                break
    return until_close(toks(trace)), screen_rgb(c)


def run(ctx):
    r = ctx.rng
    oldlim = limit_memory(8 << 30)
    nsess = ctx.n(100, 900)
    for si in range(nsess):
        kind = r.choice(["base", "lib", "lib", "cli", "vmware"])
        vm_corpus = si % 10 == 6
        if vm_corpus:
            kind = "vmware"        # every tenth session: the VMware variant on a 32-bit format with all near misses of its pattern
        opts = {}
        if r.random() < .6:
            opts["password"] = "".join(chr(r.randrange(33, 127)) for _ in range(r.randint(0, 10)))
        for o in ("pseudocursor", "nocursor", "pseudodesktop", "last_rect", "qemu_extended_key"):
            if r.random() < .3:
                opts[o] = r.random() < .5
        parts, pf, ver, authresp, (w, h) = gen_handshake(r, kind if kind != "vmware" else "lib", opts)
        tries = 0
        while vm_corpus and pf.bypp != 4 and tries < 50:
            tries += 1
            parts, pf, ver, authresp, (w, h) = gen_handshake(r, "lib", opts)
        sess = Session(pf)
        msgs = gen_messages(r, sess, r.randint(0, 6), maxarea=2500)
        if si % 9 == 4:
            # a long run of small messages (bells, empty clipboard, empty updates, 1x1 rectangles): delivered in ONE chunk the
            # dispatch loop handles hundreds of messages per dataReceived call, delivered byte-wise one handler at a time
            many = []
            for _ in range(r.choice([300, 500, 1100])):
                k = r.random()
                if k < .5:
                    many.append((sess.bell(), ("bell",)))
                elif k < .7:
                    many.append((sess.cuttext(b""), ("cut", b"")))
                elif k < .85:
                    many.append((sess.update([], False, r=r), ("update", [], False)))
                else:
                    one = enc_raw(r, pf, r.randrange(3), r.randrange(3), 1, 1)
                    many.append((sess.update([one], False, r=r), ("update", [one], False)))
            msgs += many
            ctx.count("long_runs_of_small_messages")
        if si % 7 == 2:
            # large blocks (a long clipboard text, a raw rectangle of more than a kilobyte) between ordinary messages
            txt = bytes(r.randrange(256) for _ in range(r.choice([1024, 1500, 5000])))
            msgs.append((sess.cuttext(txt), ("cut", txt)))
            msgs.append((sess.bell(), ("bell",)))
            big_ = enc_raw(r, pf, 0, 0, 24, 16)
            msgs.append((sess.update([big_]), ("update", [big_], False)))
            msgs.append((sess.cuttext(b"ok"), ("cut", b"ok")))
            ctx.count("sessions_with_large_blocks")
        if kind == "vmware" and pf.bypp == 4:
            # the workaround's own trigger: 1x1 raw updates of the top-left pixel
            for _ in range(r.randint(1, 3)):
                one = enc_raw(r, pf, 0, 0, 1, 1)
                msgs.insert(r.randint(0, len(msgs)), (sess.update([one]), ("update", [one], False)))
        if kind == "vmware" and pf.bypp == 4:
            # near misses of the workaround's pattern: other 20-byte messages about the top-left pixel (a 1x1 CopyRect to (0,0)),
            # and the same 1x1 raw update one pixel further - each arrives as a chunk of its own in the "one message per chunk" run
            for ni in range(4 if vm_corpus else r.randint(1, 3)):
                cands = [Rect(0, 0, 1, 1, E_COPY, struct.pack("!HH", r.randrange(3), r.randrange(3)), [], "copyrect"),
                         enc_raw(r, pf, 1, 0, 1, 1), enc_raw(r, pf, 0, 1, 1, 1), enc_rre(r, pf, 0, 0, 1, 1)]
                near = cands[ni] if vm_corpus else r.choice(cands[:3])
                if near.kind == "copyrect":
                    near.copy = struct.unpack("!HH", near.body) + (0, 0, 1, 1)
                msgs.insert(r.randint(0, len(msgs)), (sess.update([near]), ("update", [near], False)))
        if kind in ("lib", "cli") and si % 9 == 7:
            # a local cursor shape (pointer at 0,0) and updates underneath it, each followed by further messages: the cursor
            # has to be composited again after every update, however much more data the chunk holds
            opts["pseudocursor"] = True
            cur = enc_cursor(r, pf, 0, 0, r.choice([3, 8, 9]), r.choice([2, 5]))
            cur.body = cur.body[:len(cur.body) - ((cur.w + 7) // 8) * cur.h] + b"\xff" * (((cur.w + 7) // 8) * cur.h)
            tail = [(sess.update([cur]), ("update", [cur], False))]
            for _ in range(r.randint(2, 5)):
                u = enc_raw(r, pf, 0, 0, r.choice([2, 6, 12]), r.choice([2, 6]))
                tail.append((sess.update([u]), ("update", [u], False)))
                tail.append((sess.bell(), ("bell",)))
            msgs += tail
            ctx.count("sessions_with_cursor_under_updates")
        if si % 5 == 3 and kind != "vmware":
            # handshakes that end in a refusal or a failed authentication (reason of any length, also empty), followed by
            # bytes the client must not interpret: the same under every chunking
            fver = r.choice([(3, 3), (3, 7), (3, 8), (3, 8)])
            reason = bytes(r.randrange(256) for _ in range(r.choice([0, 1, 5, 40, 40])))
            k = r.random()
            if fver == (3, 3):
                body = [struct.pack("!I", 0), struct.pack("!I", len(reason)), reason] if k < .5 or "password" not in opts else \
                       [struct.pack("!I", 2), bytes(16), struct.pack("!I", r.choice([1, 2]))]
            elif k < .4:
                body = [bytes([0]), struct.pack("!I", len(reason)), reason]
            else:
                body = [bytes([1, 1])] + ([struct.pack("!I", r.choice([1, 2])), struct.pack("!I", len(reason)), reason] if fver == (3, 8) else [])
            parts = [b"RFB %03d.%03d\n" % fver] + [b_ for b_ in body if b_ is not None]
            msgs = [(bytes(r.randrange(256) for _ in range(r.choice([0, 3, 20]))), ("garbage",))]
            ver = fver
            ctx.count("sessions_ending_in_refusal_or_auth_failure")
        pieces = parts + [m[0] for m in msgs]
        stream = b"".join(pieces)
        ctx.count("version_%d.%d" % ver)
        ctx.count("kind_" + kind)
        for m in msgs:
            ctx.count("msg_" + m[1][0])
            if m[1][0] == "update":
                for rc in m[1][1]:
                    ctx.count("enc_" + rc.kind)
                    for sk in getattr(rc, "sub", ()):
                        ctx.count("sub_" + sk)
        bounds = []
        pos = 0
        for p in pieces:
            pos += len(p)
            bounds.append(pos)
        chs = chunkings(r, stream, bounds)
        chs.append([p for p in pieces if p])           # exactly one message per chunk
        # chunk boundaries exactly where the client's receive buffer runs empty (seeded C01ac: a fast path for a chunk that
        # STARTS with a complete large block): a cut at the start of every large block only, and - when there are not too many -
        # a cut at every block boundary, so that every handler is handed exactly its own block
        bst = block_starts(kind, opts, stream) if kind != "vmware" else []
        if bst:
            n_ = len(stream)
            big = sorted({o for o, z in bst if 256 <= z <= n_})
            if big:
                chs.append([c_ for c_ in (stream[a:b] for a, b in zip([0] + big, big + [n_])) if c_])
                ctx.count("chunkings_cut_at_large_block_starts")
                ctx.count("large_blocks_1024_and_more", sum(1 for o, z in bst if 1024 <= z <= n_))
            allb = sorted({o for o, z in bst})
            if len(allb) <= 1500:
                chs.append([c_ for c_ in (stream[a:b] for a, b in zip([0] + allb, allb + [n_])) if c_])
                ctx.count("chunkings_cut_at_every_block_boundary")
        ref = None
        lines_all = []
        meta = []
        for chunks in chs:
            c, per, zlog = run_chunks(kind, opts, chunks)
            flat = until_close([t for p in per for t in p])
            scr = screen_rgb(c)
            nmatch = sum(vm_matches(ch) for ch in chunks) if kind == "vmware" else 0
            rp = {"input": {"kind": kind, "opts": opts, "stream": hx(stream), "chunks": [len(x) for x in chunks]},
                  "how": "the real %s on an in-memory transport, dataReceived per chunk; trace (callbacks, writes, close) and screen compared with the unsplit run" % KINDS[kind].__mro__[2].__name__}
            if nmatch:
                ctx.count("vmware_matching_chunks", nmatch)
                mid = [ch for ch in chunks if vm_matches(ch) and ch not in pieces]
                if mid:
                    ctx.count("vmware_midmessage_matches", len(mid))
                want = vm_expected(opts, chunks)
                if (flat, scr) != want:
                    ctx.violate("vmware-workaround", dict(rp, observed="with the matching chunk(s) dropped and answered by a refresh request the trace should be %r..., got %r..." % (want[0][-4:], flat[-4:])))
            else:
                if ref is None:
                    ref = (flat, scr)
                elif (flat, scr) != ref:
                    k = next((i for i, (a, b) in enumerate(zip(flat, ref[0])) if a != b), min(len(flat), len(ref[0])))
                    ctx.violate("segmentation", dict(rp, observed="trace differs from the unsplit run at token %d: %r vs %r; screens equal: %s" % (
                        k, flat[k:k + 2], ref[0][k:k + 2], scr == ref[1])))
            ml = model_lines(kind, opts, zlog, chunks, auth_response_of(c, kind if kind != 'vmware' else 'lib', opts))
            meta.append((len(lines_all), len(zlog), len(chunks), per, chunks))
            lines_all += ml
            ctx.count("chunkings")
            ctx.count("chunks", len(chunks))
            ctx.case({"kind": kind, "version": list(ver), "stream_bytes": len(stream), "chunks": [len(x) for x in chunks][:12], "trace_head": flat[:6]}
                     if si < 2 and len(chunks) > 2 else None,
                     key=(si, tuple(len(x) for x in chunks)) if len(chunks) > 1 else None)
        unlimit_memory(oldlim)
        mout = ctx.drive(lines_all)
        oldlim = limit_memory(8 << 30)
        if mout is not None:
            for off, nz, nch, per, chunks in meta:
                mper = parse_model(mout[off:], nz, nch)
                a = [t for t in until_close([t for p in per for t in p]) if t != "fired"]   # the harness' own waiter is not in the model
                b = until_close([t for p in mper for t in p])
                if a != b:
                    k = next((i for i, (x, y) in enumerate(zip(a, b)) if x != y), min(len(a), len(b)))
                    ctx.disagree("model-vs-RFBClient", {"input": {"kind": kind, "opts": opts, "stream": hx(stream), "chunks": [len(x) for x in chunks]},
                                                         "impl": a[max(0, k - 2):k + 3], "model": b[max(0, k - 2):k + 3], "at": k})
                    break
    unlimit_memory(oldlim)
    # thorough: exhaustive enumeration of all 2^(n-1) chunkings of short handshake streams
    if ctx.tier == "thorough":
        import itertools
        for kind in ("base", "lib"):
            stream = b"RFB 003.008\n" + bytes([2, 2, 1]) + bytes(4) + server_init(2, 2, vclient.RGB32, b"ab")[:14]
            tail = stream[12:]
            n = len(tail)
            ref = None
            for mask in range(1 << (n - 1)):
                cuts = [i + 1 for i in range(n - 1) if mask >> i & 1]
                chunks = [stream[:12]] + [tail[a:b] for a, b in zip([0] + cuts, cuts + [n])]
                c, per, zlog = run_chunks(kind, {}, chunks)
                flat = until_close([t for p in per for t in p])
                if ref is None:
                    ref = flat
                elif flat != ref:
                    ctx.violate("segmentation", {"input": {"kind": kind, "opts": {}, "stream": hx(stream), "chunks": [len(x) for x in chunks]},
                                                 "observed": "exhaustive chunking enumeration: trace differs from the first chunking"})
                ctx.evaluations += 1
            ctx.stats["exhaustive_chunkings_" + kind] = 1 << (n - 1)
