"""C18 -- A recorded script replays to the same input events."""
from __future__ import annotations
import io, os, shlex, shutil, tempfile, types
from proxygen import *  # noqa
from vncdotool import client as vclient, command
from twisted.internet import task
from twisted.internet.defer import Deferred
from impl import connect

ID = "C18"
PROOF_MODULES = ["VncProofs.C18", "VncProofs.C17", "VncProofs.C18Ptr"]
THEOREMS = ["Vnc.C18_quote_split", "Vnc.C18_quote_alone", "Vnc.C18_safe_word", "Vnc.C18_name_roundtrip", "Vnc.C18_token_is_quoted_word",
            "Vnc.C18_word_decodes", "Vnc.C18_fmt_safe", "Vnc.C18_line_tokens", "Vnc.C18_line_compiles", "Vnc.C18_replay", "Vnc.C18_recorder_line",
            "Vnc.C17_record_key", "Vnc.C17_record_pointer",
            "Vnc.C18_session_compiles", "Vnc.C18_session_keys", "Vnc.C18_pointer_event_replay", "Vnc.C18_session_positions", "Vnc.C18_session_pauses", "Vnc.C18_pause_value"]
TRUSTED = [
    "Lean 4.33 kernel; standard axioms only",
    "VncModel/Shlex.lean is tied to CPython's shlex (posix, whitespace_split) and shlexQuote to shlex.quote by this correspondence run on an adversarial alphabet (quotes, backslash, #, blanks incl. tab/CR/LF, NUL, non-ASCII); recorder, compiler and key decoder models are tied by C17, C10, C04",
    "the end-to-end run uses only real code: VNCLoggingServerProxy -> recorded text -> file -> build_command_list -> VNCDoToolClient on an in-memory transport with task.Clock",
]
ASSUMPTIONS = ["keysym 0x0D (literal CR) is the known finding keysym-cr: script files are read with universal newlines",
               "Recordable keys: named keys, or keysyms that are Unicode scalar values (<= 0x10FFFF, not surrogates); others are the known finding keysym-not-recordable",
               "pointer replay is proved only through the recorder/compiler lemmas (C17_record_pointer, C10); the end-to-end run checks positions and pauses on the real code"]
RULE = ("viewer sessions of 1..25 key / pointer events over named keys, all ASCII incl. the characters special in scripts (quotes, backslash, #, blanks, control characters), "
        "BMP and astral characters, positions and button masks, gaps of 0..3600 s; replayed with warp 1, 0.5, 2, 4; plus 50 000 (thorough) adversarial strings for shlex / shlex.quote; "
        "non-trivial = distinct session with >= 3 events of which one key is special in the script syntax")

SPECIAL = [0x23, 0x27, 0x22, 0x5c, 0x20, 0x09, 0x0a, 0x0d, 0x00, 0x7f, 0x24, 0x60, 0x2d, 0x3b, 0x26, 0x7c, 0x2a, 0x3f, 0x7e, 0xa0, 0xad]


def parse_c2s(stream):
    out = []
    i = 0
    while i < len(stream):
        t = stream[i]
        if t == 4:
            d, k = struct.unpack("!BxxI", stream[i + 1:i + 8]); out.append(("key", k, bool(d))); i += 8
        elif t == 5:
            m, x, y = struct.unpack("!BHH", stream[i + 1:i + 6]); out.append(("ptr", x, y, m)); i += 6
        else:
            out.append(("other", t)); break
    return out


def replay(script_text, warp, tmp, via_stdin=False, delay=None):
    path = os.path.join(tmp, "rec.vdo")
    with open(path, "w", encoding="utf-8", newline="") as f:
        f.write(script_text)
    if via_stdin:
        return replay_stdin(script_text, warp, delay)
    clock = task.Clock()
    old = use_reactor(clock); old.__enter__()
    try:
        c, trace = connect()
        stamped = []
        c.transport.write = lambda data: stamped.append((clock.seconds(), bytes(data)))
        fac = types.SimpleNamespace(deferred=Deferred())
        command.build_command_list(fac, [path], delay, warp)
        done, errs = [], []
        fac.deferred.addCallback(lambda cl: done.append(1))
        fac.deferred.addErrback(lambda f: errs.append(f))
        fac.deferred.callback(c)
        guard = 0
        while not done and not errs and guard < 100000:
            guard += 1
            calls = clock.getDelayedCalls()
            if not calls:
                break
            clock.advance(max(0.0, min(dc.getTime() for dc in calls) - clock.seconds()))
        if errs:
            return None, "replay raised %s" % exc_class(errs[0].value)
        if not done:
            return None, "replay did not finish"
        return stamped, None
    except Exception as e:  # noqa
        return None, "script rejected: %s %s" % (type(e).__name__, e)
    finally:
        old.__exit__(None, None, None)


def replay_stdin(script_text, warp, delay=None):
    """`vncdo -`: the recorded script is piped into vncdo's standard input (build_tool's stdin branch)"""
    import io, sys
    from unittest import mock
    clock = task.Clock()
    old = use_reactor(clock); old.__enter__()
    try:
        c, trace = connect()
        stamped = []
        c.transport.write = lambda data: stamped.append((clock.seconds(), bytes(data)))
        opts = mock.Mock(verbose=0, delay=delay, warp=warp, incremental_refreshes=False, host="h", port=1, address_family=0)
        with mock.patch.object(command, "factory_connect", lambda *a: None), use_reactor(mock.Mock()), \
                mock.patch.object(sys, "stdin", io.StringIO(script_text)):
            try:
                fac = command.build_tool(opts, ["-"])
            except SystemExit as e:
                return None, "script rejected on stdin: %s" % (e.code,)
        done, errs = [], []
        fac.deferred.addCallback(lambda cl: done.append(1))
        fac.deferred.addErrback(lambda f: errs.append(f))
        fac.deferred.callback(c)
        guard = 0
        while not done and not errs and guard < 100000:
            guard += 1
            calls = clock.getDelayedCalls()
            if not calls:
                break
            clock.advance(max(0.0, min(dc.getTime() for dc in calls) - clock.seconds()))
        if errs:
            return None, "replay (stdin) raised %s" % exc_class(errs[0].value)
        if not done:
            return None, "replay (stdin) did not finish"
        return stamped, None
    except Exception as e:  # noqa
        return None, "script rejected on stdin: %s %s" % (type(e).__name__, e)
    finally:
        old.__exit__(None, None, None)


def run(ctx):
    r = ctx.rng
    tmp = tempfile.mkdtemp(prefix="verif-c18-")
    try:
        n = ctx.n(200, 3000)
        for si in range(n):
            t0 = 10000 * r.randrange(1, 1000)
            prev_pos = None
            rec_from = 0
            if si >= 2 and r.random() < .3:
                # this session is not the first one the proxy serves: an earlier viewer of the same factory came, moved the
                # pointer, and left; the script of THIS session must replay to THIS session
                p0 = Proxy(False, t0 - 50000)
                prev_pos = (r.choice([0, 5, 640, 65535]), r.choice([0, 7, 480, 65535]))
                p0.viewer_sends(b"RFB 003.008\n\x01\x01" + struct.pack("!BBHH", 5, r.choice([0, 1]), *prev_pos) + struct.pack("!BBxxI", 4, 1, 0x7a))
                from twisted.python.failure import Failure
                from twisted.internet.error import ConnectionDone
                p0.srv.connectionLost(Failure(ConnectionDone()))
                rec_from = len(p0.rec)
                p = Proxy(False, t0, fac=p0.fac)
                p.rec = p0.rec
                ctx.count("sessions_after_an_earlier_viewer")
            else:
                p = Proxy(False, t0)
            p.viewer_sends(b"RFB 003.008\n\x01\x01")
            evs = []
            t = t0
            special = False
            names = sorted(lp.REVERSE_MAP)
            for ks in names[(si - 2) * 6:(si - 1) * 6] if si >= 2 else []:
                # corpus: EVERY key the recorder has a name for (the live table) is pressed once, six per session
                t += 1
                p.set_time(t)
                p.viewer_sends(struct.pack("!BBxxI", 4, 1, ks))
                evs.append(("key", ks, True, t))
                ctx.count("named_keys_pressed_once")
            for _ in range(r.randint(1, 25)):
                t += r.choice([0, 1, 2, 17, 10000, 25000, 123456, 36000000])
                if r.random() < .7 or (si < 2 and not evs):
                    k = r.random()
                    if k < .35:
                        ks = r.choice(SPECIAL); special = True
                    elif k < .55:
                        ks = r.choice(list(lp.REVERSE_MAP))
                    elif k < .8:
                        ks = r.randrange(32, 127)
                    else:
                        ks = r.choice([r.randrange(0xA0, 0xD800), r.randrange(0xE000, 0x10000), r.randrange(0x10000, 0x110000)])
                    if r.random() < .03:
                        ks = r.choice([0x01000041, 0x110000])
                    if si == 0 and not evs:
                        ks = 0x01000041          # corpus: the listed finding keysym-not-recordable
                    if si == 1 and not evs:
                        ks = 13                  # corpus: the listed finding keysym-cr
                    down = r.random() < .5
                    how = r.random()
                    if how < .15:
                        # the same key sent as a QEMU Extended Key Event (16-bit down flag, keysym, keycode)
                        msg = struct.pack("!BBHII", 255, 0, 1 if down else 0, ks, r.randrange(256))
                        ctx.count("key_as_qemu_extended")
                    elif how < .25 and down:
                        msg = struct.pack("!BBxxI", 4, r.choice([2, 128, 255]), ks)      # RFC: any non-zero value means pressed
                    else:
                        msg = struct.pack("!BBxxI", 4, down, ks)
                    evs.append(("key", ks, down, t))
                else:
                    x, y, m = r.choice([0, 5, 640, 65535]), r.choice([0, 7, 480, 65535]), r.choice([0, 0, 0, 1, 4, 5])
                    if prev_pos is not None and not any(e[0] == "ptr" for e in evs) and r.random() < .7:
                        x, y = prev_pos          # the viewer's pointer happens to be where the earlier viewer left it
                    msg = struct.pack("!BBHH", 5, m, x, y)
                    evs.append(("ptr", x, y, m, t))
                p.set_time(t)
                if r.random() < .15 and len(msg) > 1:
                    # the message arrives in two TCP segments (same arrival time): what is recorded must not depend on that
                    cut = r.randrange(1, len(msg))
                    p.viewer_sends(msg[:cut])
                    p.viewer_sends(msg[cut:])
                    ctx.count("messages_split_in_two")
                else:
                    p.viewer_sends(msg)
            script = "".join(p.rec[rec_from:])
            via_stdin = r.random() < .3 and not any(e[0] == "key" and e[1] == 13 for e in evs)
            ctx.count("replayed_via_stdin" if via_stdin else "replayed_from_file")
            unrec = any(e[0] == "key" and e[1] > 0x10FFFF for e in evs)
            warp = r.choice([1.0, 1.0, 0.5, 0.25, 2.0, 4.0])
            # vncdo's own --delay between commands (default 10 ms) only ever adds time: a pause still lasts gap / warp
            delay = r.choice([None, None, 10, 100])
            ctx.count("replay_delay_%s" % delay)
            stamped, err = replay(script, warp, tmp, via_stdin, delay)
            rp = {"input": {"events": [list(e) for e in evs], "warp": warp, "script": script},
                  "how": "real recorder text written to a file (or piped into vncdo - ), compiled by build_command_list and executed on a real client with a virtual clock", "via_stdin": via_stdin, "delay_ms": delay}
            has_cr = any(e[0] == "key" and e[1] == 13 for e in evs)
            sig = "keysym-not-recordable" if unrec else ("keysym-cr" if has_cr else "replay")
            nt = len(evs) >= 3 and special
            ctx.case({"events": [list(e) for e in evs][:6], "script": script[:160]} if len(ctx.samples) < 3 and nt else None, key=si if nt else None)
            for e in evs:
                ctx.count("ev_" + e[0])
            if err:
                ctx.violate(sig, dict(rp, observed=err))
                continue
            if unrec:
                ctx.violate(sig, dict(rp, observed="session contains a keysym above 0x10FFFF; the script cannot contain it"))
                continue
            got = parse_c2s(b"".join(b for _, b in stamped))
            want_keys = [(e[1], e[2]) for e in evs if e[0] == "key"]
            got_keys = [(g[1], g[2]) for g in got if g[0] == "key"]
            if got_keys != want_keys:
                k = next((i for i, (a, b) in enumerate(zip(got_keys, want_keys)) if a != b), min(len(got_keys), len(want_keys)))
                ctx.violate(sig, dict(rp, observed="key event %d: replay sent %r, recorded session had %r" % (k, got_keys[k:k + 1], want_keys[k:k + 1])))
                continue

            def dedupe(ps):
                out = []
                for q in ps:
                    if not out or out[-1] != q:
                        out.append(q)
                return out
            want_pos = dedupe([(e[1], e[2]) for e in evs if e[0] == "ptr"])
            got_pos = dedupe([(g[1], g[2]) for g in got if g[0] == "ptr"])
            if want_pos and got_pos[:1] == [(0, 0)] and want_pos[0] != (0, 0):
                got_pos = got_pos[1:]          # a click before any move is sent at the client's initial position
            if got_pos != want_pos:
                ctx.violate(sig, dict(rp, observed="pointer positions: replay %r, session %r" % (got_pos[:6], want_pos[:6])))
                continue
            # pauses: the replay reaches each event no earlier than the recorded time since the start, divided by warp
            # (4-decimal rounding of each gap allowed); writes are attributed to events by counting
            gi = 0
            mouse = None
            for e in evs:
                if e[0] == "key":
                    nw = 1
                else:
                    nw = (1 if mouse != (e[1], e[2]) else 0) + 2 * bin(e[3]).count("1")
                    mouse = (e[1], e[2])
                if nw and gi < len(stamped):
                    need = (e[-1] - t0) / 10000.0 / warp
                    if stamped[gi][0] < need - 0.00005 * (evs.index(e) + 1) / warp - 1e-9:
                        ctx.violate(sig, dict(rp, observed="event %r is replayed %.5f s after the start, recorded %.4f s / warp %.2f = %.5f s" % (
                            e[:3], stamped[gi][0], (e[-1] - t0) / 10000.0, warp, need)))
                        break
                gi += nw
        # shlex / shlex.quote model validation on an adversarial alphabet
        alpha = list("ab 'x\"\\#\t\n\r-_.:=0") + ["\x00", "é", "€", "\x7f", "$", "`"]
        strs = ["", "'", "''", "a'b", "a\\", "\\", "#", "a#b c", "'a b'", "\"a\\\"b\"", "a\\\nb", "\"\\x\"", "''x", "x''", "a\tb\rc\nd"]
        for _ in range(ctx.n(3000, 50000)):
            strs.append("".join(r.choice(alpha) for _ in range(r.randint(0, 10))))
        lines = []
        for s_ in strs:
            lines.append("shlex " + (s_.encode().hex() or "-"))
            lines.append("quote " + (s_.encode().hex() or "-"))
        mout = ctx.drive(lines)
        if mout is not None:
            for i, s_ in enumerate(strs):
                try:
                    lex = shlex.shlex(io.StringIO(s_), posix=True)
                    lex.whitespace_split = True
                    want = "ok " + (",".join((t.encode().hex() or "-") for t in lex) or "-")
                except ValueError:
                    want = "err value"
                ctx.evaluations += 1
                if mout[2 * i] != want:
                    ctx.disagree("model-vs-shlex", {"input": s_, "impl": want, "model": mout[2 * i]})
                wq = "ok " + (shlex.quote(s_).encode().hex() or "-")
                if mout[2 * i + 1] != wq:
                    ctx.disagree("model-vs-shlex.quote", {"input": s_, "impl": wq, "model": mout[2 * i + 1]})
                # and the round trip on the real shlex (the property's core)
                lex = shlex.shlex(io.StringIO(shlex.quote(s_) + " \n"), posix=True)
                lex.whitespace_split = True
                if list(lex) != [s_]:
                    ctx.violate("quote-roundtrip", {"input": s_, "observed": "shlex(quote(s)) != [s]"})
    finally:
        shutil.rmtree(tmp, ignore_errors=True)
