"""C19 -- Everything the client sends is a well-formed RFB client message."""
from __future__ import annotations
import io, os, struct
from impl import *  # noqa
from twisted.internet import task

ID = "C19"
PROOF_MODULES = ["VncProofs.C19", "VncProofs.C19Sys", "VncProofs.C19Unique"]
THEOREMS = ["Vnc.C19_parse_encode", "Vnc.C19_parse_stream", "Vnc.C19_step", "Vnc.C19_stream", "Vnc.C19_paste",
            "Vnc.C19_latin1_length", "Vnc.C19_setencodings_split", "Vnc.C19_sizes", "Vnc.C19_out_of_range_atomic",
            "Vnc.C19_pf_roundtrip", "Vnc.C19_sys_writes", "Vnc.C19_sys_stream", "Vnc.C19_no_protocol_writes",
            "Vnc.C19_prefix_free", "Vnc.C19_encode_inj", "Vnc.C19_not_proper_prefix", "Vnc.C19_stream_unique",
            "Vnc.C19_stream_reading_unique"]
TRUSTED = [
    "Lean 4.33 kernel; standard axioms only",
    "VncModel/Wire.lean + LibOps.lean are tied to the serialisers of rfb.py and the writing operations of client.py by this correspondence run (byte-exact, per transport.write)",
    "struct.pack for the codes B H I i s x ? and str.encode('iso-8859-1') as modelled",
]
ASSUMPTIONS = ["setEncodings with an encoding outside s32 writes its header before struct.pack raises (not atomic); outside the property (in-range arguments), not generated",
               "in-range arguments: coordinates/sizes 0..65535, keysyms < 2^32, masks < 256, Latin-1 text, s32 encodings (out-of-range arguments raise before anything is written: C19_out_of_range_atomic, exercised)"]
RULE = ("histories of 1..30 writing operations (key press/down/up, move/click/down/up/drag, paste, refresh/capture, explicit update requests, "
        "setPixelFormat, setEncodings, raw keyEvent/pointerEvent) with boundary values, a fraction with one out-of-range argument; "
        "non-trivial = distinct history with >= 3 different operation kinds")

BV = [0, 1, 255, 256, 65534, 65535]


def pyparse(bs):
    """RFC 6143 7.5 parser (python transcription of VncSpec/C2S.lean parseC2S); None = framing lost."""
    out = []
    i = 0
    n = len(bs)
    while i < n:
        t = bs[i]
        if t == 0:
            if i + 20 > n: return None
            out.append(("spf", bytes(bs[i + 4:i + 20]))); i += 20
        elif t == 2:
            if i + 4 > n: return None
            k = struct.unpack("!H", bs[i + 2:i + 4])[0]
            if i + 4 + 4 * k > n: return None
            out.append(("se", list(struct.unpack("!%di" % k, bs[i + 4:i + 4 + 4 * k])))); i += 4 + 4 * k
        elif t == 3:
            if i + 10 > n: return None
            out.append(("ur",) + struct.unpack("!BHHHH", bs[i + 1:i + 10])); i += 10
        elif t == 4:
            if i + 8 > n: return None
            d, k = struct.unpack("!BxxI", bs[i + 1:i + 8]); out.append(("ke", d, k)); i += 8
        elif t == 5:
            if i + 6 > n: return None
            out.append(("pe",) + struct.unpack("!BHH", bs[i + 1:i + 6])); i += 6
        elif t == 6:
            if i + 8 > n: return None
            k = struct.unpack("!I", bs[i + 4:i + 8])[0]
            if i + 8 + k > n: return None
            out.append(("cut", bytes(bs[i + 8:i + 8 + k]))); i += 8 + k
        else:
            return None
    return out


def gen_history(r, names):
    ops = []
    pos = [0, 0]
    for _ in range(r.randint(1, 30)):
        k = r.random()
        bad = r.random() < .03
        if k < .2:
            es = [r.choice(names) if r.random() < .5 else chr(r.choice([r.randrange(33, 127), r.randrange(161, 0x3000)])) for _ in range(r.randint(1, 3))]
            es = [e for e in es if e != "-"] or ["a"]
            ops.append(("k", r.choice(["press", "down", "up"]), "-".join(es), es))
        elif k < .45:
            j = r.random()
            if j < .4:
                pos = [r.choice(BV) if r.random() < .5 else r.randrange(65536) for _ in range(2)]
                if bad: pos[0] = r.choice([65536, -1, 70000])
                ops.append(("p", "m", pos[0], pos[1]))
            elif j < .8:
                ops.append(("p", r.choice("cdu"), 9 if bad else r.randint(1, 8)))
            else:
                t = [min(65535, max(0, pos[0] + r.randint(-9, 9))), min(65535, max(0, pos[1] + r.randint(-9, 9)))]
                ops.append(("p", "g", t[0], t[1], r.choice([1, 2, 5])))
                pos = t
        elif k < .55:
            L = r.choice([0, 1, 2, 5, 300])
            t = "".join(chr(r.choice([r.randrange(256), 13, 10])) for _ in range(L))
            if r.random() < .15:
                t = r.choice(["a\r\nb", "\r\n", "x\r\r\ny", "line1\r\nline2\r\n", "\n\r"])
            if bad: t += "Ā"
            ops.append(("paste", t))
        elif k < .65:
            ops.append(("r", r.random() < .5, r.random() < .5))
        elif k < .75:
            v = [r.choice(BV) for _ in range(4)]
            if bad: v[r.randrange(4)] = 65536
            ops.append(("ur", v[0], v[1], v[2], v[3], r.random() < .5))
        elif k < .82:
            ops.append(("spf", r.choice([8, 16, 24, 32]), r.choice([8, 15, 16, 24, 32]), r.random() < .3, r.random() < .9,
                        r.choice([0, 7, 31, 255, 65535]), r.choice([0, 7, 63, 255, 65535]), r.choice([0, 3, 31, 255, 65535]),
                        r.choice([0, 11, 16, 24, 255]), r.choice([0, 5, 8, 255]), r.choice([0, 8, 16, 255])))
        elif k < .9:
            n = r.choice([0, 1, 2, 5, 40])
            es = [r.choice([0, 1, 2, 4, 5, 16, -223, -224, -239, -258, 1025, -2, 2147483647, -2147483648, 0x574D5664]) for _ in range(n)]
            ops.append(("se", es))
        elif k < .95:
            ops.append(("ke", 4294967296 if bad else r.choice([0, 0x61, 0xffff, 0x01000041, 4294967295]), r.random() < .5))
        else:
            ops.append(("pe", r.choice(BV), r.choice(BV), 256 if bad else r.choice([0, 1, 128, 255])))
    return ops


def tok(op):
    if op[0] == "k":
        return "k:%s:0:%d:%s" % (op[1], op[2].isupper(), op[2].encode().hex() or "-")
    if op[0] == "p":
        return "p:" + ":".join(str(v) for v in op[1:])
    if op[0] == "paste":
        return "paste:" + (op[1].encode().hex() or "-")
    if op[0] == "r":
        return "r:%d" % op[1]
    if op[0] == "ur":
        return "ur:%d:%d:%d:%d:%d" % op[1:]
    if op[0] == "spf":
        return "spf:" + ":".join(str(int(v)) for v in op[1:])
    if op[0] == "se":
        return "se:" + (",".join(str(e) for e in op[1]) or "-")
    if op[0] == "ke":
        return "ke:%d:%d" % (op[1], op[2])
    return "pe:%d:%d:%d" % op[1:]


def expected(op, st, keyspec):
    """messages an operation stands for (python side; key chords through the Lean Spec)."""
    if op[0] == "k":
        return keyspec
    if op[0] == "p":
        if op[1] == "m":
            st["pos"] = (op[2], op[3]); return [("pe", st["mask"], op[2], op[3])]
        if op[1] == "d":
            st["mask"] |= 1 << (op[2] - 1); return [("pe", st["mask"]) + st["pos"]]
        if op[1] == "u":
            st["mask"] &= ~(1 << (op[2] - 1)); return [("pe", st["mask"]) + st["pos"]]
        if op[1] == "c":
            m1 = st["mask"] | 1 << (op[2] - 1); st["mask"] = m1 & ~(1 << (op[2] - 1))
            return [("pe", m1) + st["pos"], ("pe", st["mask"]) + st["pos"]]
        ox, oy = st["pos"]; x, y, step = op[2], op[3], op[4]
        dx, dy = x - ox, y - oy; dmax = max(abs(dx), abs(dy))
        out = [("pe", st["mask"], ox + dx * s // dmax, oy + dy * s // dmax) for s in range(0, dmax, step)]
        st["pos"] = (x, y)
        return out + [("pe", st["mask"], x, y)]
    if op[0] == "paste":
        return [("cut", op[1].encode("latin-1"))]
    if op[0] == "r":
        return [("ur", int(op[1]), 0, 0, st["w"], st["h"])]
    if op[0] == "ur":
        return [("ur", int(op[5]), op[1], op[2], op[3], op[4])]
    if op[0] == "spf":
        return [("spf", struct.pack("!BB??HHHBBBxxx", *op[1:]))]
    if op[0] == "se":
        return [("se", list(op[1]))]
    if op[0] == "ke":
        return [("ke", int(op[2]), op[1])]
    return [("pe", op[3], op[1], op[2])]


def run_impl(ops, w, h, with_screen=False):
    clock = task.Clock()
    old = use_reactor(clock); old.__enter__()
    try:
        c, trace = connect(w=w, h=h)
        if with_screen:
            # the client already holds a framebuffer (an earlier update): what it sends must not depend on that
            c.updateRectangle(0, 0, 2, 2, bytes(16))
        per_op = []
        for op in ops:
            n0 = len(trace)
            try:
                if op[0] == "k":
                    getattr(c, {"press": "keyPress", "down": "keyDown", "up": "keyUp"}[op[1]])(op[2])
                elif op[0] == "p":
                    if op[1] == "m": c.mouseMove(op[2], op[3])
                    elif op[1] == "c": c.mousePress(op[2])
                    elif op[1] == "d": c.mouseDown(op[2])
                    elif op[1] == "u": c.mouseUp(op[2])
                    else:
                        done = []
                        d = c.mouseDrag(op[2], op[3], op[4]); d.addBoth(done.append)
                        k = 0
                        while not done and k < 100000:
                            clock.advance(0.2); k += 1
                        if done and hasattr(done[0], "raiseException"):
                            done[0].raiseException()
                elif op[0] == "paste": c.paste(op[1])
                elif op[0] == "r":
                    if op[2]: c.captureScreen(io.BytesIO(), incremental=op[1], format="png")
                    else: c.refreshScreen(incremental=op[1])
                elif op[0] == "ur": c.framebufferUpdateRequest(op[1], op[2], op[3], op[4], incremental=op[5])
                elif op[0] == "spf": c.setPixelFormat(rfb.PixelFormat(*op[1:]))
                elif op[0] == "se": c.setEncodings(op[1])
                elif op[0] == "ke": c.keyEvent(op[1], down=op[2])
                else: c.pointerEvent(op[1], op[2], op[3])
            except Exception as e:  # noqa
                return per_op, writes(trace), exc_class(e), writes(trace[n0:])
            per_op.append(writes(trace[n0:]))
        return per_op, writes(trace), None, []
    finally:
        old.__exit__(None, None, None)


def cli_paste_leg(ctx):
    """the glue in front of paste: `pastefile FILE` commands of a command line, compiled by the real build_command_list and run as the
    real callback chain on a connected client: each ClientCutText carries the text of ITS command, Latin-1, behind the exact length"""
    import tempfile, shutil
    from unittest import mock
    from twisted.internet.defer import Deferred
    from vncdotool import command
    r = ctx.rng
    tmp = tempfile.mkdtemp(prefix="verif-c19-")
    try:
        for si in range(ctx.n(40, 300)):
            texts, args = [], []
            for j in range(r.randint(1, 4)):
                t = "".join(chr(r.choice([r.randrange(32, 127), r.randrange(160, 256)])) for _ in range(r.choice([0, 1, 3, 20, 300])))
                path = os.path.join(tmp, "p%d_%d.txt" % (si, j))
                with open(path, "w", encoding="utf-8", newline="") as f:
                    f.write(t)
                t = open(path).read()       # the text of the file as a text-mode read in this locale yields it
                args += ["pastefile", path]
                texts.append(t)
                if r.random() < .5:
                    args += ["key", "a"]
                    texts.append(None)
            fac = mock.Mock()
            fac.deferred = Deferred()
            try:
                command.build_command_list(fac, list(args))
            except Exception as e:  # noqa
                ctx.violate("cli-paste-rejected", {"input": {"command_line": args, "file_contents": [t for t in texts if t is not None]}, "observed": "build_command_list raised %s" % exc_class(e)})
                continue
            c, trace = connect(w=8, h=8)
            n0 = len(trace)
            errs = []
            fac.deferred.addErrback(lambda f: errs.append(f.type.__name__))
            fac.deferred.callback(c)
            parsed = pyparse(b"".join(writes(trace[n0:])))
            want = []
            for t in texts:
                want += [("ke", 1, 0x61), ("ke", 0, 0x61)] if t is None else [("cut", t.encode("latin-1"))]
            ctx.count("cli_paste_sessions")
            ctx.case(None, key=("cli-paste", tuple(args)))
            if errs or parsed != want:
                ctx.violate("cli-paste", {"input": {"command_line": args, "texts": [t for t in texts if t is not None]},
                                          "observed": ("the chain failed with %s" % errs) if errs else "messages sent %r, the commands stand for %r" % (parsed and parsed[:6], want[:6]),
                                          "how": "real build_command_list on a real Deferred, fired with a connected VNCDoToolClient on an in-memory transport; writes parsed with an RFC 6143 7.5 parser"})
    finally:
        shutil.rmtree(tmp, ignore_errors=True)


def run(ctx):
    cli_paste_leg(ctx)
    r = ctx.rng
    names = list(vclient.KEYMAP)
    hist = [[("k", "press", "ctrl-c", ["ctrl", "c"]), ("p", "m", 3, 4), ("p", "c", 1), ("paste", "h\xe9"), ("r", True, False), ("se", [0, -223])],
            [("paste", "x" * 126 + "\xa9"), ("p", "m", 1, 1)], [("se", [1025, -2]), ("ke", 0x61, True)], [("se", []), ("paste", "")]]
    for _ in range(ctx.n(400, 6000)):
        hist.append(gen_history(r, names))
    sizes = [(r.choice([1, 8, 800, 65535]), r.choice([1, 8, 600, 65535])) for _ in hist]
    mout = ctx.drive(["lib %d %d %s" % (sizes[i][0], sizes[i][1], " ".join(tok(o) for o in h)) for i, h in enumerate(hist)])
    # key chords through the Lean Spec
    klines, kidx = [], {}
    for i, h in enumerate(hist):
        for j, op in enumerate(h):
            if op[0] == "k":
                kidx[(i, j)] = len(klines)
                klines.append("speckey %s 0 %d %s" % (op[1], op[2].isupper(), " ".join(("n:" + e.encode().hex()) if len(e) > 1 else "c:%d" % ord(e) for e in op[3])))
    kout = ctx.drive(klines) if klines else []
    for i, ops in enumerate(hist):
        w, h = sizes[i]
        per_op, allw, err, partial = run_impl(ops, w, h, with_screen=(i % 2 == 1))
        ctx.count("client_with_screen" if i % 2 == 1 else "client_without_screen")
        kinds = {o[0] + (o[1] if o[0] == "p" else "") for o in ops}
        ctx.case({"ops": [tok(o) for o in ops][:10]} if i in (0, 4, 7) else None, key=repr(ops) if len(kinds) >= 3 else None)
        for o in ops:
            ctx.count("op_" + o[0])
        if err:
            ctx.count("raised_" + err)
        # model correspondence (bytes per write, and whether/where the history raised)
        if mout is not None:
            got = ("err " if err else "ok ") + (",".join(hx(x) for x in allw) or "-")
            if got != mout[i]:
                ctx.disagree("model-vs-serialisers", {"input": {"size": [w, h], "ops": [tok(o) for o in ops]}, "impl": got[:600], "model": mout[i][:600]})
        # the property itself
        st = {"pos": (0, 0), "mask": 0, "w": w, "h": h}
        want = []
        ok_spec = True
        for j, op in enumerate(ops[:len(per_op)]):
            if not in_range(op):
                ok_spec = False      # an out-of-range operation that did not raise: outside the property, stop judging here
                break
            ks = None
            if op[0] == "k":
                if kout is None:
                    ok_spec = False; break
                line = kout[kidx[(i, j)]]
                ks = pyparse(b"".join(bytes.fromhex(x) for x in line[3:].split(","))) if line.startswith("ok ") and line != "ok -" else []
            want += expected(op, st, ks)
        if not ok_spec:
            continue
        stream = b"".join(allw)
        parsed = pyparse(stream)
        rp = {"input": {"size": [w, h], "ops": [tok(o) for o in ops]}, "how": "operations on VNCDoToolClient; concatenated transport.write data parsed with an RFC 6143 7.5 parser"}
        if parsed is None:
            ctx.violate("framing-lost", dict(rp, observed="the server-side parser loses framing on " + hx(stream)[:400]))
        elif parsed != want:
            k = next((k for k, (a, b) in enumerate(zip(parsed, want)) if a != b), min(len(parsed), len(want)))
            ctx.violate("wrong-fields", dict(rp, observed="message %d: sent %r, operation stands for %r" % (k, parsed[k:k + 1], want[k:k + 1])))
        if err and len(per_op) < len(ops):
            # an in-range operation must not raise
            op = ops[len(per_op)]
            if in_range(op):
                ctx.violate("in-range-raises", dict(rp, observed="in-range operation %s raised %s" % (tok(op), err)))


def in_range(op):
    if op[0] == "k": return True
    if op[0] == "p":
        if op[1] in "mg": return 0 <= op[2] < 65536 and 0 <= op[3] < 65536
        return 1 <= op[2] <= 8
    if op[0] == "paste": return all(ord(ch) < 256 for ch in op[1])
    if op[0] == "r": return True
    if op[0] == "ur": return all(0 <= v < 65536 for v in op[1:5])
    if op[0] == "spf": return True
    if op[0] == "se": return all(-2**31 <= e < 2**31 for e in op[1])
    if op[0] == "ke": return op[1] < 2**32
    return op[3] < 256
