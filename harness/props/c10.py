"""C10 -- Command-line scripts compile to exactly the operations written, or to nothing."""
from __future__ import annotations
import io, os, shlex, shutil, sys, tempfile
from unittest import mock
from core import *  # noqa
from vncdotool import command

ID = "C10"
PROOF_MODULES = ["VncProofs.C10"]
THEOREMS = ["Vnc.C10_sound", "Vnc.C10_complete", "Vnc.C10_unique", "Vnc.C10_include", "Vnc.C10_reject", "Vnc.C10_reject_general",
            "Vnc.C10_no_parse", "Vnc.C10_capture_ext", "Vnc.C10_formats", "Vnc.C10_command_words"]
TRUSTED = [
    "Lean 4.33 kernel; standard axioms only",
    "VncModel/Script.lean is tied to command.build_command_list by this correspondence run (registered (method, args) lists and exception classes); SUPPORTED_FORMATS is re-extracted on every run",
    "parameters of the model: os.path.isfile, the token list shlex yields for a script file (shlex itself is modelled for C18), file contents, float(); int() and os.path.splitext as modelled in VncModel/PyStr.lean / Script.lean",
]
ASSUMPTIONS = ["the include graph of script files is well-founded (a script file that names itself makes the real loop run forever before any connection; `compile` takes fuel - generated scripts nest at most 3 deep)"]
RULE = ("command sequences over the full vocabulary and aliases with valid and invalid argument counts/types, nested script files (depth <= 3) with quoting and comments, "
        "'-' (stdin) through build_tool, near-miss command words (every substring/superstring/case variant of every command word, empty word), capture extensions; "
        "non-trivial = distinct script with >= 2 commands or a script file")

C = command.VNCDoCLIClient
NAMES = {C.keyPress: "keyPress", C.keyDown: "keyDown", C.keyUp: "keyUp", C.mouseMove: "mouseMove", C.mousePress: "mousePress",
         C.mouseDown: "mouseDown", C.mouseUp: "mouseUp", C.mouseDrag: "mouseDrag", C.pause: "pause", C.paste: "paste",
         C.captureScreen: "captureScreen", C.captureRegion: "captureRegion", C.expectScreen: "expectScreen", C.expectRegion: "expectRegion"}
WORDS = ["key", "kdown", "keydown", "kup", "keyup", "move", "mousemove", "click", "mdown", "mousedown", "mup", "mouseup", "type", "typefile",
         "pastefile", "capture", "expect", "rcapture", "rexpect", "pause", "sleep", "drag"]


def hxs(s):
    return s.encode("utf-8").hex() or "-"


def impl(args, delay, warp, inc=False):
    fac = mock.Mock()
    try:
        with Budget(5.0):
            command.build_command_list(fac, list(args), delay, warp, inc)
    except Spin:
        return "err does-not-terminate", None
    except command.CommandParseError:
        return "err parse", None
    except IndexError:
        return "err index", None
    except ValueError:
        return "err value", None
    except OSError:
        return "err os", None
    except Exception as e:  # noqa
        return "err " + exc_class(e), None
    out = []
    for c in fac.deferred.addCallback.call_args_list:
        fn, a = c.args[0], c.args[1:]
        out.append((NAMES.get(fn, repr(fn)),) + tuple(a))
    return "ok", out


def py_float(x):
    try:
        float(x)
        return True
    except ValueError:
        return False


def py_int(x):
    try:
        return int(x)
    except ValueError:
        return None


def spec_parse(words, delay, warp, files, inc):
    """independent recursive-descent recogniser of the documented grammar; returns the op list or None (= reject)"""
    out = []
    words = list(words)
    dl = float(delay) / 1000.0 if delay else None
    guard = 0

    def sep():
        if dl and words:
            out.append(("pause", dl))
    while words:
        guard += 1
        if guard > 5000:
            return None
        c = words.pop(0)

        def need(n):
            return len(words) >= n
        try:
            if c == "key":
                if not need(1): return None
                out.append(("keyPress", words.pop(0)))
            elif c in ("kdown", "keydown"):
                if not need(1): return None
                out.append(("keyDown", words.pop(0)))
            elif c in ("kup", "keyup"):
                if not need(1): return None
                out.append(("keyUp", words.pop(0)))
            elif c in ("move", "mousemove", "drag"):
                if not need(2) or py_int(words[0]) is None or py_int(words[1]) is None: return None
                out.append(("mouseDrag" if c == "drag" else "mouseMove", int(words.pop(0)), int(words.pop(0))))
            elif c in ("click", "mdown", "mousedown", "mup", "mouseup"):
                if not need(1) or py_int(words[0]) is None: return None
                out.append(({"click": "mousePress", "mdown": "mouseDown", "mousedown": "mouseDown"}.get(c, "mouseUp"), int(words.pop(0))))
            elif c == "type":
                if not need(1): return None
                for ch in words.pop(0):
                    out.append(("keyPress", ch))
                    if dl: out.append(("pause", dl))
            elif c == "typefile":
                if not need(1) or words[0] not in files or files[words[0]][1] is None: return None
                for ch in files[words.pop(0)][1]:
                    if ch == "\r": continue
                    out.append(("keyPress", {"\n": "enter", "\t": "tab"}.get(ch, ch)))
                    if dl: out.append(("pause", dl))
            elif c == "pastefile":
                if not need(1) or words[0] not in files or files[words[0]][1] is None: return None
                out.append(("paste", files[words.pop(0)][1].replace("\r\n", "\n")))
            elif c == "capture":
                if not need(1): return None
                f = words.pop(0)
                if os.path.splitext(f)[1][1:] not in ("png", "jpg", "jpeg", "gif", "bmp"): return None
                out.append(("captureScreen", f, int(inc)))
            elif c == "expect":
                if not need(2) or not py_float(words[1]): return None
                out.append(("expectScreen", words.pop(0), float(words.pop(0))))
            elif c == "rcapture":
                if not need(5) or any(py_int(x) is None for x in words[1:5]): return None
                f = words.pop(0)
                v = [int(words.pop(0)) for _ in range(4)]
                if os.path.splitext(f)[1][1:] not in ("png", "jpg", "jpeg", "gif", "bmp"): return None
                out.append(("captureRegion", f) + tuple(v))
            elif c == "rexpect":
                if not need(4) or py_int(words[1]) is None or py_int(words[2]) is None or not py_float(words[3]): return None
                out.append(("expectRegion", words.pop(0), int(words.pop(0)), int(words.pop(0)), float(words.pop(0))))
            elif c in ("pause", "sleep"):
                if not need(1) or not py_float(words[0]): return None
                out.append(("pause", float(words.pop(0)) / warp))
            elif c in files and files[c][0] is not None:
                words[:0] = files[c][0]
            else:
                return None
        except ZeroDivisionError:
            return None
        sep()
    return out


def gen_script(r, files, depth=0):
    words = []
    for _ in range(r.randint(0, 7)):
        k = r.random()
        cw = r.choice(WORDS)
        if k < .08:
            # near-miss words
            base = r.choice(WORDS)
            cw = r.choice([base[:-1], base[1:], base + "x", base.upper(), base.capitalize(), "", base[:1], base[1:3], " " + base, base + " "])
            words += [cw] + [r.choice(["1", "2", "a"]) for _ in range(r.randint(0, 2))]
            continue
        if k < .2 and files:
            words.append(r.choice(list(files)))
            continue
        ints = lambda: r.choice(["0", "1", "10", "65535", "-3", "+7", "1_0", " 5 ", "x", "1.5", ""]) if r.random() < .25 else str(r.randrange(2000))
        flt = lambda: r.choice(["0", "1", "0.5", "2.5e0", "inf", "nan", "-1", "x", "", "1_0.0", " 3 "]) if r.random() < .4 else "%.3f" % (r.random() * 3)
        fname = lambda: r.choice(["shot.png", "a.jpg", "b.jpeg", "c.gif", "d.bmp", "e.PNG", "f.txt", "g", "shot.apng", "x.png.bak", ".png", "dir.d/gif", "h.tar.png", "i."])
        nargs = {"key": 1, "kdown": 1, "keydown": 1, "kup": 1, "keyup": 1, "move": 2, "mousemove": 2, "click": 1, "mdown": 1, "mousedown": 1, "mup": 1,
                 "mouseup": 1, "type": 1, "typefile": 1, "pastefile": 1, "capture": 1, "expect": 2, "rcapture": 5, "rexpect": 4, "pause": 1, "sleep": 1, "drag": 2}[cw]
        if cw in ("key", "kdown", "keydown", "kup", "keyup"):
            a = [r.choice(["a", "ctrl-c", "enter", "A", "-", "del", "é"])]
        elif cw == "type":
            a = [r.choice(["hi", "", "a b", "x-y", "Hello!"])]
        elif cw in ("typefile", "pastefile"):
            a = [r.choice(list(files) + ["nosuchfile"]) if files else "nosuchfile"]
        elif cw == "capture":
            a = [fname()]
        elif cw == "expect":
            a = [fname(), flt()]
        elif cw == "rcapture":
            a = [fname(), ints(), ints(), ints(), ints()]
        elif cw == "rexpect":
            a = [fname(), ints(), ints(), flt()]
        elif cw in ("pause", "sleep"):
            a = [flt()]
        else:
            a = [ints() for _ in range(nargs)]
        if r.random() < .06:
            a = a[:r.randrange(len(a))] if a else a      # missing argument(s)
        words += [cw] + a
    return words


def quote_for_file(r, w_):
    if w_ == "" or any(ch in w_ for ch in " \t\n#'\"\\") or r.random() < .2:
        return shlex.quote(w_)
    return w_


def run(ctx):
    r = ctx.rng
    tmp = tempfile.mkdtemp(prefix="verif-c10-")
    cwd = os.getcwd()
    os.chdir(tmp)
    try:
        n = ctx.n(1500, 30000)
        lines, meta = [], []
        for si in range(n):
            # script files for this case: name -> (tokens or None, content or None)
            files = {}
            nfiles = r.choice([0, 0, 1, 2, 3])
            for fi in range(nfiles):
                name = "s%d_%d.vdo" % (si % 50, fi)
                toks_ = gen_script(r, {k: v for k, v in files.items()})      # may include earlier files: nesting, no cycles
                text = ""
                for j, t in enumerate(toks_):
                    text += quote_for_file(r, t) + r.choice([" ", "\n", "  ", " # a comment\n" if r.random() < .3 else " "])
                with open(name, "w", newline="") as f:
                    f.write(text)
                lex = shlex.shlex(io.StringIO(text), posix=True)
                lex.whitespace_split = True
                files[name] = (list(lex), open(name).read())
            words = gen_script(r, files)
            delay = r.choice([None, 0, 10, 125])
            warp = r.choice([1.0, 0.5, 2.0, 4.0])
            inc = r.random() < .3
            # a file in the current directory that happens to be NAMED like a command word used in the script: the word is
            # still the command (a script file is only looked for when the word is nothing else)
            decoys = []
            if si % 12 == 5:
                for w_ in sorted({w_ for w_ in words if w_ in WORDS})[:2]:
                    with open(w_, "w") as f:
                        f.write("click 3\n")
                    decoys.append(w_)
                    # the recogniser and the model know the file too: where the word is the ARGUMENT of pastefile / typefile it is
                    # that file that is read; where it stands for a command it is the command
                    files[w_] = (["click", "3"], "click 3\n")
                if decoys:
                    ctx.count("cases_with_a_file_named_like_a_command")
            try:
                st, ops = impl(words, delay, warp, inc)
            finally:
                for d_ in decoys:
                    os.remove(d_)
            want = spec_parse(words, delay, warp, files, inc)
            nt = len(words) >= 4 or any(w_ in files for w_ in words)
            ctx.case({"words": words, "delay": delay, "warp": warp, "files": {k: v[0] for k, v in files.items()}, "result": st} if len(ctx.samples) < 3 and nt and st == "ok" else None,
                     key=repr((words, delay, sorted(files))) if nt else None)
            ctx.count(st.replace(" ", "_"))
            rp = {"input": {"words": words, "delay": delay, "warp": warp, "incremental": inc, "files": {k: {"tokens": v[0], "content": v[1]} for k, v in files.items()},
                            "other_files_in_cwd": {d_: "click 3" for d_ in decoys}},
                  "how": "vncdotool.command.build_command_list on a mock factory (in a temp dir holding the script files) vs a recogniser of the documented grammar"}
            if want is None:
                if st == "ok":
                    ctx.violate("accepts-outside-grammar", dict(rp, observed="compiled to %r although the script is not in the grammar" % (ops,)))
            elif st != "ok":
                ctx.violate("rejects-valid", dict(rp, observed="%s; the grammar gives %r" % (st, want)))
            elif repr([tuple(o) for o in ops]) != repr([tuple(o) for o in want]):
                k = next((i for i, (a, b) in enumerate(zip(ops, want)) if repr(tuple(a)) != repr(tuple(b))), min(len(ops), len(want)))
                ctx.violate("wrong-operations", dict(rp, observed="operation %d: compiled %r, written %r" % (k, ops[k:k + 2], want[k:k + 2])))
            # model line
            allw = set(words)
            for v in files.values():
                allw |= set(v[0])
            fl = [w_ for w_ in allw if py_float(w_)]
            ml = "compile %d " % bool(delay)
            for name, (tk, content) in files.items():
                ml += "F %s %s %s " % (hxs(name), (",".join(hxs(t) for t in tk) if tk else "~"), hxs(content) if content != "" else "-")
            ml += "FL " + " ".join(hxs(x) for x in fl) + " W " + " ".join(hxs(x) for x in words)
            lines.append(ml)
            meta.append((st, ops, delay, warp, inc, rp))
        mout = ctx.drive(lines)
        if mout is not None:
            for (st, ops, delay, warp, inc, rp), mo in zip(meta, mout):
                if mo.startswith("err"):
                    got = st
                    if got != mo:
                        ctx.disagree("model-vs-build_command_list", {"input": rp["input"], "impl": got, "model": mo})
                    continue
                if st != "ok":
                    ctx.disagree("model-vs-build_command_list", {"input": rp["input"], "impl": st, "model": mo[:200]})
                    continue
                dl = float(delay) / 1000.0 if delay else None
                mops = []
                for tok in ([] if mo == "ok -" else mo[3:].split(";")):
                    p = tok.split(":")
                    un = lambda h: bytes.fromhex("" if h == "-" else h).decode()
                    nme = p[0]
                    if nme in ("keyPress", "keyDown", "keyUp"): mops.append((nme, un(p[1])))
                    elif nme in ("mouseMove", "mouseDrag"): mops.append((nme, int(p[1]), int(p[2])))
                    elif nme in ("mousePress", "mouseDown", "mouseUp"): mops.append((nme, int(p[1])))
                    elif nme == "pauseArg": mops.append(("pause", float(un(p[1])) / warp))
                    elif nme == "pauseDelay": mops.append(("pause", dl))
                    elif nme == "paste": mops.append(("paste", un(p[1])))
                    elif nme == "captureScreen": mops.append(("captureScreen", un(p[1]), int(inc)))
                    elif nme == "captureRegion": mops.append(("captureRegion", un(p[1])) + tuple(int(x) for x in p[2:6]))
                    elif nme == "expectScreen": mops.append(("expectScreen", un(p[1]), float(un(p[2]))))
                    elif nme == "expectRegion": mops.append(("expectRegion", un(p[1]), int(p[2]), int(p[3]), float(un(p[4]))))
                if repr([tuple(o) for o in ops]) != repr(mops):
                    ctx.disagree("model-vs-build_command_list", {"input": rp["input"], "impl": repr(ops)[:300], "model": repr(mops)[:300]})
        # build_tool: an error is raised before any connection is attempted; '-' reads the script from stdin
        from vncdotool import command as cmd
        for words, stdin_text in ([["key", "a", "nosuch"], None], [["capture", "x.tiff"], None], [["move", "1"], None], [["-"], "key a\nbogus 1\n"],
                                  [["-"], "key a # c\ntype 'x y'\n"], [["key", "a"], None]):
            connects = []
            opts = mock.Mock(verbose=0, delay=0, warp=1.0, incremental_refreshes=False, host="h", port=1, address_family=0)
            with mock.patch.object(cmd, "factory_connect", lambda *a: connects.append(a)), mock.patch.object(sys, "stdin", io.StringIO(stdin_text or "")), \
                    use_reactor(mock.Mock()):
                try:
                    fac = cmd.build_tool(opts, list(words))
                    res = "ok"
                except SystemExit:
                    res = "exit"
                except Exception as e:  # noqa
                    res = "raise " + exc_class(e)
            toks_ = words
            if words == ["-"]:
                lex = shlex.shlex(io.StringIO(stdin_text), posix=True); lex.whitespace_split = True
                toks_ = list(lex)
            valid = spec_parse(toks_, 0, 1.0, {}, False) is not None
            ctx.case(None, key=("build_tool", repr(words), stdin_text))
            if valid != (res == "ok") or (not valid and connects):
                ctx.violate("connect-despite-error", {"input": {"words": words, "stdin": stdin_text}, "observed": "build_tool -> %s, connection attempts: %d, script valid: %s" % (res, len(connects), valid)})
        # `vncdo -`: the script on standard input is tokenised exactly like a script file (POSIX shlex: quotes group and are
        # removed, backslash escapes, # comments) and compiles to the operations written
        stdin_texts = ['type "hello world"\nkey a\n', "type 'x y' key b\n", 'type a\\ b\n', 'key a # comment\ntype "#"\n', "type ''\nkey '-'\n",
                       'move 1 2 # go\nclick 1\n', 'type "it\'s"\n', "key ctrl-c\npause 0.5\n"]
        for text in stdin_texts:
            fake = mock.Mock()
            with mock.patch.object(cmd, "VNCDoCLIFactory", lambda fake=fake: fake), mock.patch.object(cmd, "factory_connect", lambda *a: None), \
                    use_reactor(mock.Mock()), mock.patch.object(sys, "stdin", io.StringIO(text)):
                opts = mock.Mock(verbose=0, delay=0, warp=1.0, incremental_refreshes=False, host="h", port=1, address_family=0)
                try:
                    cmd.build_tool(opts, ["-"])
                    res = "ok"
                except SystemExit:
                    res = "exit"
                except Exception as e:  # noqa
                    res = "raise " + exc_class(e)
            got = [(NAMES.get(c.args[0], None),) + tuple(c.args[1:]) for c in fake.deferred.addCallback.call_args_list if c.args and c.args[0] in NAMES]
            lex = shlex.shlex(io.StringIO(text), posix=True); lex.whitespace_split = True
            want = spec_parse(list(lex), 0, 1.0, {}, False)
            ctx.count("stdin_scripts")
            ctx.case(None, key=("stdin", text))
            if want is None or res != "ok" or repr([tuple(o) for o in got]) != repr([tuple(o) for o in want]):
                ctx.violate("stdin-script", {"input": {"argv": ["vncdo", "-"], "stdin": text},
                                             "observed": "build_tool -> %s, operations %r; the text stands for %r" % (res, got, want),
                                             "how": "build_tool(['-']) with the script on sys.stdin and a recording factory"})
        # the real command line: whatever follows the options is the script, word for word - also words that begin with '-'
        # (negative coordinates, a typed text that looks like an option, a trailing "-w 4")
        argv_cases = [["move", "-5", "10"], ["type", "-p", "key", "a"], ["key", "a", "-w", "4"], ["type", "--nocursor"], ["key", "-"],
                      ["pause", "-1"], ["drag", "-3", "-4"], ["type", "-"], ["key", "a", "--", "key", "b"]]
        for _ in range(ctx.n(20, 200)):
            ws = []
            for _k in range(ctx.rng.randint(1, 4)):
                ws += ctx.rng.choice([["key", ctx.rng.choice(["a", "-", "ctrl-c"])], ["type", ctx.rng.choice(["-v", "--delay", "x", "-i"])],
                                      ["move", str(ctx.rng.randint(-9, 9)), str(ctx.rng.randint(-9, 9))], ["pause", ctx.rng.choice(["-1", "0.5"])]])
            argv_cases.append(ws)
        for words in argv_cases:
            seen = []

            def fake_build_command_list(factory, args, *a, seen=seen, **k):
                seen.append(list(args))
                raise SystemExit(0)
            # the real option parser AND the real build_tool run; what reaches the compiler is recorded.  Standard input holds a
            # script of its own: it must be read only for the single word "-"
            with mock.patch.object(cmd, "build_command_list", fake_build_command_list), mock.patch.object(cmd, "setup_logging", lambda o: None), \
                    mock.patch.object(cmd, "factory_connect", lambda *a: None), mock.patch.object(sys, "stdin", io.StringIO("key enter\n")), \
                    use_reactor(mock.Mock()), mock.patch.object(sys, "argv", ["vncdo", "-s", "h"] + list(words)), \
                    mock.patch.object(sys, "stderr", io.StringIO()):
                try:
                    cmd.vncdo()
                    res = "returned"
                except SystemExit as e:
                    res = "exit %r" % (e.code,)
                except Exception as e:  # noqa
                    res = "raise " + exc_class(e)
            ctx.count("argv_cases")
            ctx.case(None, key=("argv", repr(words)))
            if seen != [list(words)]:
                ctx.violate("argv-not-the-script", {"input": {"command_line": ["vncdo", "-s", "h"] + list(words)},
                                                    "observed": "the script handed to the compiler is %r (%s); written: %r" % (seen, res, list(words)),
                                                    "how": "the real vncdo() option parser and build_tool, with build_command_list replaced by a recorder and a decoy script on stdin"})
    finally:
        os.chdir(cwd)
        shutil.rmtree(tmp, ignore_errors=True)
