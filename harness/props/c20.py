"""C20 -- Server addresses parse according to the documented grammar."""
from __future__ import annotations
import ipaddress, itertools, os, re, shutil, socket, tempfile
from core import *  # noqa  (imports the real vncdotool from the working tree)
from vncdotool import command

ID = "C20"
PROOF_MODULES = ["VncProofs.C20"]
THEOREMS = ["Vnc.C20_accepts", "Vnc.C20_sound", "Vnc.C20_rejects", "Vnc.C20_unique", "Vnc.C20_default_port",
            "Vnc.C20_display", "Vnc.C20_port", "Vnc.C20_empty_host", "Vnc.C20_three_colons", "Vnc.C20_unterminated"]
TRUSTED = [
    "Lean 4.33 kernel; standard axioms only (see axioms per theorem)",
    "model VncModel/Address.lean + VncModel/PyStr.lean is tied to command.parse_server by this correspondence run (differential, generated + exhaustive short strings)",
    "CPython: str.split/partition/startswith, int() (ASCII model pyInt; Unicode digits/spaces outside the model), ipaddress.IPv4Address (exact model isV4), ipaddress.IPv6Address and os.path.exists are parameters of the model (any predicate)",
]
ASSUMPTIONS = [
    "numbers are ASCII (Python's int also accepts Unicode digits and spaces; such strings are generated only in the malformed stream and compared against the oracle, not the model)",
    "IPv6 literal validity and path existence are arbitrary predicates in the theorems; the harness supplies the values ipaddress / os.path.exists return",
]
RULE = ("strings from the address grammar (hosts, IPv4/IPv6 literals, displays, ports incl. negative, signed, underscored, padded with blanks), "
        "a mutation stream (extra colons, text after ']', empty parts, non-numeric numbers, existing paths) and ALL strings of length <= 5 over {a,1,:,[,],.}; "
        "a sample of accepted and rejected strings is also run through vncdo, api.connect and vnclog with a recording connector (host, port, family handed over); "
        "non-trivial = distinct string that contains ':' or '[' (anything but a bare host)")

FAM = {socket.AF_INET: "inet", socket.AF_INET6: "inet6", socket.AF_UNSPEC: "unspec", getattr(socket, "AF_UNIX", -1): "unix"}


def impl(s):
    try:
        fam, host, port = command.parse_server(s)
        return ("ok", FAM.get(fam, str(fam)), host, port)
    except ValueError:
        return ("err", "value")
    except Exception as e:  # noqa
        return ("err", exc_class(e))


def py_int(t):
    try:
        return int(t)
    except ValueError:
        return None


def is_v4(h):
    try:
        ipaddress.IPv4Address(h)
        return True
    except ValueError:
        return False


def is_v6(h):
    try:
        ipaddress.IPv6Address(h)
        return True
    except ValueError:
        return False


def oracle(s):
    """The documented grammar ADDRESS[:DISPLAY|::PORT], written independently of parse_server."""
    if s.startswith("["):
        m = re.fullmatch(r"\[([^\]]*)\](.*)", s, re.S)
        if not m or not is_v6(m.group(1)):
            return ("err", "value")
        host, suf, fam = m.group(1), m.group(2), "inet6"
    else:
        i = s.find(":")
        host, suf = (s, "") if i < 0 else (s[:i], s[i:])
        if host == "":
            host = "127.0.0.1"
        fam = "unix" if os.path.exists(host) else ("inet" if is_v4(host) else "unspec")
    if suf == "":
        port = 5900
    elif suf.startswith("::") and ":" not in suf[2:] and py_int(suf[2:]) is not None:
        port = py_int(suf[2:])
    elif suf.startswith(":") and ":" not in suf[1:] and py_int(suf[1:]) is not None:
        port = 5900 + py_int(suf[1:])
    else:
        return ("err", "value")
    return ("ok", fam, host, port)


def model_line(s):
    if s.startswith("["):
        inner = s[1:].partition("]")[0]
        v6, ex = is_v6(inner), False
    else:
        host = s.split(":")[0] or "127.0.0.1"
        v6, ex = False, os.path.exists(host)
    return "addr %s %d %d" % (s.encode("utf-8").hex() or "-", v6, ex)


def parse_model(out):
    p = out.split(" ")
    if p[0] == "ok":
        return ("ok", p[1], bytes.fromhex(p[2] if p[2] != "-" else "").decode("utf-8"), int(p[3]))
    return tuple(p)


def gen(ctx, tmp):
    r = ctx.rng
    hosts = ["", "localhost", "example.com", "10.11.12.13", "1.2.3.4", "256.1.1.1", "01.2.3.4", "1.2.3", "1.2.3.4.5", "0.0.0.0",
             "255.255.255.255", "a-b.c", "host_name", "[::1]", "[2001:DB8::2]", "[::ffff:1.2.3.4]", "[0:0:0:0:0:0:0:1]", "[fe80::1%eth0]",
             "[::1", "[]", "[zz]", "[1.2.3.4]", "x[", "a]b", tmp + "/sock", tmp + "/nothere", "/some/path/unix.skt", " ", "h ", "1.2.3.٤"]
    nums = ["0", "1", "10", "99", "5900", "65535", "65536", "-1", "+5", "1_0", " 7 ", "007", "", "x", "1x", "1.5", "0x10", "１２", "1__0", "_1",
            "1_", "-", "+", " ", "\t3\n", "99999999999999999999", "1e3", "\x1c2", "3\x1f"]
    out = []
    for h in hosts:
        out.append(h)
        for n in nums:
            out.append(h + ":" + n)
            out.append(h + "::" + n)
    for _ in range(ctx.n(3000, 60000)):
        h = r.choice(hosts)
        k = r.random()
        n = r.choice(nums) if r.random() < .6 else str(r.randint(-70000, 70000))
        if k < .25:
            s = h + ":" + n
        elif k < .5:
            s = h + "::" + n
        elif k < .6:
            s = h + ":" + n + ":" + r.choice(nums)
        elif k < .7:
            s = h + r.choice(["junk", " ", "]", "["]) + ":" + n
        elif k < .8:
            s = h + ":::" + n
        else:
            s = h
        # mutation
        if r.random() < .3 and s:
            i = r.randrange(len(s))
            s = s[:i] + r.choice([":", "[", "]", ".", "", "0", " ", "_", "-"]) + s[i + (r.random() < .5):]
        out.append(s)
    return out


class _Rx:
    """a reactor that only records"""
    running = True
    exit_status = None

    def __init__(self):
        self.when_running = []

    def callWhenRunning(self, f, *a, **k):
        self.when_running.append((f, a, k))

    def callFromThread(self, f, *a, **k):
        pass

    def callLater(self, *a, **k):
        pass

    def listenTCP(self, *a, **k):
        pass

    def run(self, *a, **k):
        pass

    def stop(self):
        pass


def connector_args(s):
    """what vncdo, api.connect and vnclog hand to the connector for the server string s:
    {'vncdo': ('ok', fam, host, port) | ('err', ...), 'api': ..., 'vnclog': ...}"""
    import sys
    from unittest import mock
    from vncdotool import api, client as vclient
    out = {}
    eps = []          # what finally reaches an endpoint: (kind, host[, port])

    def on_connect(kind, args, factory):
        from twisted.internet.defer import Deferred
        eps.append((kind,) + tuple(args))
        return Deferred()
    real_fc = vclient.factory_connect

    def recording_fc(f, h, p_, fam, rec_):
        rec_.append((h, p_, fam))
        with fake_endpoints(on_connect):
            real_fc(f, h, p_, fam)          # the real glue: family -> endpoint, host and port handed on
    # vncdo -s S key a
    rec = []
    with use_reactor(_Rx()), mock.patch.object(command, "setup_logging", lambda o: None), \
            mock.patch.object(command, "factory_connect", lambda f, h, p_, fam: recording_fc(f, h, p_, fam, rec)), \
            mock.patch.object(sys, "argv", ["vncdo", "-s", s, "key", "a"]), mock.patch.object(sys, "stderr", open(os.devnull, "w")):
        try:
            command.vncdo()
            out["vncdo"] = ("ok", FAM.get(rec[0][2], str(rec[0][2])), rec[0][0], rec[0][1]) if len(rec) == 1 else ("err", "connects=%d" % len(rec))
        except ValueError:
            out["vncdo"] = ("err", "value") if not rec else ("err", "raised-after-connect")
        except SystemExit as e:
            # vncdo always ends with sys.exit(reactor.exit_status); before a connection attempt it is the option parser's error exit
            out["vncdo"] = ("err", "exit") if not rec else (("ok", FAM.get(rec[0][2], str(rec[0][2])), rec[0][0], rec[0][1]) if len(rec) == 1 else ("err", "connects=%d" % len(rec)))
        except Exception as e:  # noqa
            out["vncdo"] = ("err", exc_class(e))
    # api.connect(S): the real proxy class, the reactor only records what is scheduled
    rx = _Rx()
    with use_reactor(rx):
        try:
            api.connect(s)
            calls = [c for c in rx.when_running if c[0] is api.factory_connect or getattr(c[0], "__name__", "") == "factory_connect"]
            if len(calls) == 1:
                _f, h, p_, fam = calls[0][1]
                out["api"] = ("ok", FAM.get(fam, str(fam)), h, p_)
                recording_fc(_f, h, p_, fam, [])
            else:
                out["api"] = ("err", "connects=%d" % len(calls))
        except ValueError:
            out["api"] = ("err", "value") if not rx.when_running else ("err", "raised-after-connect")
        except Exception as e:  # noqa
            out["api"] = ("err", exc_class(e))
    # vnclog -s S out.vdo
    rec = []

    class _RxLog(_Rx):
        """vnclog: the real build_proxy runs; the factory it hands to listenTCP knows where the outgoing connection goes"""

        def listenTCP(self, port, factory, *a, **k):
            fam = getattr(factory, "_verif_family", None)
            rec.append((factory.host, factory.port, fam))
            return mock.Mock(getHost=lambda: mock.Mock(port=5999))
    real_bp = command.build_proxy

    def bp(options):
        f = real_bp(options)
        return f
    orig_parse = command.parse_server
    fam_seen = []

    def parse_and_note(sv):
        out_ = orig_parse(sv)
        fam_seen.append(out_[0])
        return out_
    with use_reactor(_RxLog()), mock.patch.object(command, "setup_logging", lambda o: None), \
            mock.patch.object(command, "parse_server", parse_and_note), \
            mock.patch.object(sys, "argv", ["vnclog", "-s", s, "out.vdo"]), mock.patch.object(sys, "stderr", open(os.devnull, "w")):
        try:
            command.vnclog()
            fam_ = fam_seen[-1] if fam_seen else None
            out["vnclog"] = ("ok", FAM.get(fam_, str(fam_)), rec[0][0], rec[0][1]) if len(rec) == 1 else ("err", "proxies=%d" % len(rec))
        except ValueError:
            out["vnclog"] = ("err", "value") if not rec else ("err", "raised-after-build")
        except SystemExit:
            fam_ = fam_seen[-1] if fam_seen else None
            out["vnclog"] = ("err", "exit") if not rec else (("ok", FAM.get(fam_, str(fam_)), rec[0][0], rec[0][1]) if len(rec) == 1 else ("err", "proxies=%d" % len(rec)))
        except Exception as e:  # noqa
            out["vnclog"] = ("err", exc_class(e))
    out["endpoints"] = list(eps)
    return out


def endpoint_for(fam, host, port):
    """which endpoint client.factory_connect builds for a family"""
    from unittest import mock
    from vncdotool import client as vclient
    made = []

    def on_connect(kind, args, factory):
        from twisted.internet.defer import Deferred
        made.append((kind,) + tuple(args))
        return Deferred()
    with fake_endpoints(on_connect):
        try:
            vclient.factory_connect(mock.Mock(), host, port, fam)
        except ValueError:
            return ("err", "value")
    return made[0] if len(made) == 1 else ("err", "endpoints=%d" % len(made))


def run(ctx):
    tmp = tempfile.mkdtemp(prefix="verif-c20-")
    try:
        open(os.path.join(tmp, "sock"), "w").close()
        cases = gen(ctx, tmp)
        alphabet = "a1:[]."
        for n in range(0, 6):
            for t in itertools.product(alphabet, repeat=n):
                cases.append("".join(t))
        ctx.stats["exhaustive_short_strings"] = sum(6 ** n for n in range(6))
        cases = list(dict.fromkeys(cases))
        lines = [model_line(s) for s in cases]
        mout = ctx.drive(lines)
        for i, s in enumerate(cases):
            got = impl(s)
            want = oracle(s)
            ctx.case({"input": s, "impl": list(got)} if (":" in s and "[" in s) else None,
                     key=s if (":" in s or "[" in s) else None)
            ctx.count("accepted" if got[0] == "ok" else "rejected")
            if got != want:
                ctx.violate("addr-grammar", {"input": s, "impl": list(got), "spec": list(want),
                                             "how": "vncdotool.command.parse_server(input) vs the documented grammar"})
            if mout is not None and s.isascii():
                m = parse_model(mout[i])
                if m != got:
                    ctx.disagree("model-vs-parse_server", {"input": s, "impl": list(got), "model": list(m)})
        # the answer is a function of the string and of the file system NOW: parsing the same string again after a socket path
        # has appeared or disappeared must follow the file system (no memory of earlier calls)
        for k in range(ctx.n(4, 20)):
            path = os.path.join(tmp, "later%d" % k)
            seq = []
            for step in ("absent", "present", "absent", "present"):
                if step == "present":
                    open(path, "w").close()
                elif os.path.exists(path):
                    os.remove(path)
                for s_ in (path, path + ":2"):
                    via_api = connector_args(s_).get("api")
                    if via_api != oracle(s_):
                        ctx.violate("addr-grammar-reparse", {"input": {"string": s_, "step": step, "through": "api.connect"}, "impl": list(via_api or ()), "spec": list(oracle(s_)),
                                                             "how": "api.connect on the same string before and after the path comes into existence / disappears"})
                    got, want = impl(s_), oracle(s_)
                    seq.append((step, s_, got))
                    ctx.count("reparse_cases")
                    if got != want:
                        ctx.violate("addr-grammar-reparse", {"input": {"string": s_, "history": [(a, b) for a, b, _ in seq]}, "impl": list(got), "spec": list(want),
                                                             "how": "parse_server on the same string before and after the path comes into existence / disappears"})
        # the address reaches the connector unchanged: vncdo, api.connect and vnclog
        picked = [s_ for s_ in cases if oracle(s_)[0] == "ok"][:ctx.n(150, 1500)] + [s_ for s_ in cases if oracle(s_)[0] == "err"][:ctx.n(40, 400)]
        picked += [os.path.join(tmp, "sock"), os.path.join(tmp, "sock") + ":1", os.path.join(tmp, "sock") + "::5", "[::1]:2", "10.0.0.1::80", "example.org",
                   "[fe80::1%eth0]::5901", "[fe80::1%1]", "[FE80::1%lo]:3", "[::ffff:10.0.0.1]:1"]
        for s_ in picked:
            if s_.startswith("-") or "\x00" in s_:
                continue
            want = oracle(s_)
            got = connector_args(s_)
            ctx.case(None, key=("connector", s_))
            ctx.count("connector_cases")
            eps_ = got.pop("endpoints", [])
            if want[0] == "ok":
                want_ep = ("unix", want[2]) if want[1] == "unix" else ("hostname", want[2], want[3])
                n_ok = sum(1 for who in ("vncdo", "api") if got.get(who, ("err",))[0] == "ok")
                if any(e != want_ep for e in eps_) or len(eps_) != n_ok:
                    ctx.violate("addr-reaches-connector", {"input": s_, "impl": {"endpoints": [list(e) for e in eps_]}, "spec": list(want_ep),
                                                           "how": "the real client.factory_connect with recording endpoint classes, reached through vncdo and api.connect"})
            for who, g in got.items():
                if (g[0] == "ok") != (want[0] == "ok") or (g[0] == "ok" and g != want):
                    ctx.violate("addr-reaches-connector", {"input": s_, "impl": {who: list(g)}, "spec": list(want),
                                                           "how": "%s run with the server string and a recording connector / reactor: family, host and port handed over vs the documented grammar" % who})
        for fam, fname in ((socket.AF_INET, "inet"), (socket.AF_INET6, "inet6"), (socket.AF_UNSPEC, "unspec"), (getattr(socket, "AF_UNIX", None), "unix")):
            if fam is None:
                continue
            got = endpoint_for(fam, "h", 5901)
            want = ("unix", "h") if fname == "unix" else ("hostname", "h", 5901)
            ctx.count("endpoint_cases")
            if got != want:
                ctx.violate("family-to-endpoint", {"input": {"family": fname, "host": "h", "port": 5901}, "impl": list(got), "spec": list(want),
                                                   "how": "client.factory_connect with recording endpoint classes"})
        ctx.exhaustive = False
    finally:
        shutil.rmtree(tmp, ignore_errors=True)
