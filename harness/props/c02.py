"""C02 -- Every supported encoding reproduces the server framebuffer exactly."""
from __future__ import annotations
from rfbgen import *  # noqa

ID = "C02"
PROOF_MODULES = ["VncProofs.C02", "VncProofs.C02Hextile", "VncProofs.C02Zrle", "VncProofs.C12", "VncProofs.C13", "VncProofs.C02All", "VncProofs.EndToEnd", "VncProofs.Capstone"]
THEOREMS = ["Vnc.C02_rect", "Vnc.C02_lastrect", "Vnc.C02_update", "Vnc.C02_update_lastrect", "Vnc.C02_pf_kept", "Vnc.C02_bell_after",
            "Vnc.C02_desktop_geometry", "Vnc.C02_raw_total", "Vnc.C02_hex_tile", "Vnc.C02_hextile", "Vnc.C02_hextile_empty", "Vnc.C02_runlen", "Vnc.C02_ztile", "Vnc.C02_ztiles", "Vnc.C02_zrle", "Vnc.C12_refines", "Vnc.C13_modes", "Vnc.C02_rect_any", "Vnc.C02_update_any", "Vnc.coreAfterAnys_frame", "Vnc.E2E_update", "Vnc.E2E_session", "Vnc.step_inSession", "Vnc.E2E_session_refines", "Vnc.paintUpdates_wf"]
PROOF_MODULES_EXTRA = ["VncProofs.C12", "VncProofs.C13"]
TRUSTED = [
    "Lean 4.33 kernel; standard axioms only",
    "the decoders of VncModel/Rfb.lean (Raw, CopyRect, RRE, CoRRE, Hextile, ZRLE, cursor, DesktopSize, LastRect, QEMU ext) and the canvas of VncModel/Canvas.lean are tied to rfb.py / client.py by this correspondence run (callback trace and screen pixels after every update)",
    "zlib is a parameter of the model (inflated data replayed); Pillow raw modes / paste modelled as exact pixel functions",
    "the harness' encoder (harness/rfbgen.py) is a conforming RFC 6143 encoder written independently of the decoder; it yields the wire bytes and the pixels a correct client must show",
]
ASSUMPTIONS = ["the server is a conforming encoder (well-formed bodies: counts, bounds, palette sizes, run sums) in the pixel format in force",
               "hextile foreground persistence as real encoders use it: a tile omits the foreground only if an earlier tile of the same rectangle specified one and no raw / coloured tile intervened"]
RULE = ("updates of 1..4 rectangles with structured random bodies in every encoding and sub-encoding (hextile: raw / bg-only / same / fg-subrects / coloured; "
        "ZRLE: raw / solid / packed 1,2,4 bit / plain RLE / palette RLE with runs around 1,255,256,510), sizes biased to 0,1,15,16,17,63,64,65,130, positions inside and "
        "beyond the current canvas, with and without LastRect, DesktopSize and QEMU markers, in each of the five accepted pixel formats; each update followed by a Bell; "
        "non-trivial = distinct update containing a hextile / ZRLE / RRE / CoRRE rectangle of non-zero area")


def run(ctx):
    r = ctx.rng
    oldlim = limit_memory(8 << 30)
    nsess = ctx.n(110, 1200)
    lines, meta = [], []
    for si in range(nsess):
        # the server's native format: one the client accepts, or (1 in 5) one it does not - then the format in force is
        # the one the client asks for with SetPixelFormat, and a conforming server encodes in that from then on
        native = r.choice(ACCEPTED_PF) if r.random() < .8 else r.choice(ODD_PF)
        w0, h0 = r.choice([1, 16, 64, 100]), r.choice([1, 16, 64, 100])
        opts = {"nocursor": True} if r.random() < .5 else {}
        corpus = si < 2 * len(ACCEPTED_PF)
        if corpus:
            # corpus (always run, in this order): one process, one connection after the other, every accepted layout twice; each
            # fills an area inside its screen with a colour whose WIRE BYTES are the same in every session - the same bytes
            # mean a different colour under a different layout
            native, w0, h0, opts = ACCEPTED_PF[si % len(ACCEPTED_PF)], 16, 16, {}
            ctx.count("corpus_same_colour_bytes_other_layout")
        c, trace, zlog = new_client("lib", **opts)
        hs = b"RFB 003.008\n" + bytes([1, 1]) + struct.pack("!I", 0) + server_init(w0, h0, native, b"d")
        chunks = [hs]
        feed_impl(c, trace, [hs])
        pf = native
        for t in trace:
            if t[0] == "write" and len(t[1]) == 20 and t[1][:1] == b"\x00":
                f = struct.unpack("!BB??HHHBBB", bytes(t[1][4:17]))
                pf = rfb.PixelFormat(*f)
        if pf not in ACCEPTED_PF:
            ctx.violate("format-in-force", {"input": {"native_pixel_format": pf_name(native), "options": opts},
                                            "observed": "after ServerInit the format in force (%s) is not one the client has a decoder mode for" % pf_name(pf),
                                            "how": "real VNCDoToolClient on an in-memory transport"})
            continue
        ctx.count("native_accepted" if pf == native else "native_replaced_by_setpixelformat")
        sess = Session(pf)
        ref = Canvas()
        cursor_seen = False
        checks = []       # (index of the rfb-screen line in this session's model lines, impl screen token)
        ml_extra = []
        for ui in range(2 if corpus else r.randint(1, 5)):
            rects = []
            if corpus:
                if ui == 0:
                    rects = [enc_raw(r, pf, 0, 0, 16, 16)]
                else:
                    fixed = bytes([0x10, 0x80, 0xF0, 0x00])[:pf.bypp]
                    v = int.from_bytes(fixed, "big" if pf.bigendian else "little")
                    chan = [(v >> sh) & mx for sh, mx in ((pf.redshift, pf.redmax), (pf.greenshift, pf.greenmax), (pf.blueshift, pf.bluemax))]
                    rgb = tuple((c * 255 + mx - 1) // mx for c, mx in zip(chan, (pf.redmax, pf.greenmax, pf.bluemax)))
                    assert pixel_bytes(pf, rgb)[:3] == fixed[:3] or pf.bypp == 4
                    rects = [Rect(2, 2, 4, 4, E_RRE, struct.pack("!I", 0) + pixel_bytes(pf, rgb), [(2, 2, 4, 4, [rgb] * 16)], "rre"),
                             Rect(8, 2, 4, 4, E_CORRE, struct.pack("!I", 0) + pixel_bytes(pf, rgb), [(8, 2, 4, 4, [rgb] * 16)], "corre")]
                    # ... and ZRLE packed-palette tiles whose LAST tile column is 1, 2, 6 or 7 pixels wide (rows padded to whole
                    # bytes per TILE row, not per rectangle row), for each index width
                    k_ = si % len(ACCEPTED_PF) + (si // len(ACCEPTED_PF))
                    rects.append(enc_zrle(r, pf, 0, 8, [65, 66, 70, 71][k_ % 4], 3, force_palette=[3, 4, 2, 16, 5][k_ % 5]))
            for _ in range(0 if corpus else r.choice([1, 1, 2, 3, 4])):
                j = r.random()
                if j < .05:
                    rects.append(enc_desktop(r.choice([1, 16, 90, 200]), r.choice([1, 16, 90, 200])))
                elif j < .08:
                    rects.append(enc_qemu())
                else:
                    kinds = ["raw", "copyrect", "rre", "corre", "hextile", "hextile", "zrle", "zrle", "zrle"] + (["cursor"] if opts else [])
                    rects.append(rand_rect(r, pf, kinds, maxarea=5000, maxpos=120))
            lr = r.random() < .3
            msg = sess.update(rects, lr, r=r) + sess.bell()
            n0 = len(trace)
            # random chunking of this update (C01 covers segmentation; here it keeps the decoders honest about buffering)
            if r.random() < .5 and len(msg) > 2:
                cs = sorted(r.sample(range(1, len(msg)), min(3, len(msg) - 1)))
                parts = [msg[a:b] for a, b in zip([0] + cs, cs + [len(msg)])]
            else:
                parts = [msg]
            per = feed_impl(c, trace, parts)
            chunks += parts
            flat = [t for q in per for t in q]
            rp = {"input": {"pixel_format": pf_name(pf), "options": opts, "update_index": ui, "rects": [(rc.kind, rc.x, rc.y, rc.w, rc.h, sorted(getattr(rc, "sub", ()))) for rc in rects],
                            "lastrect": lr, "stream": hx(b"".join(chunks))},
                  "how": "real VNCDoToolClient fed the encoder's bytes; callback trace and screen compared with what the encoder encoded"}
            nt = any(rc.kind in ("hextile", "zrle", "rre", "corre") and rc.w * rc.h > 0 for rc in rects)
            ctx.case(dict(rp["input"], stream=None, trace_tail=flat[-3:]) if len(ctx.samples) < 3 and nt else None, key=(si, ui) if nt else None)
            for rc in rects:
                ctx.count("enc_" + rc.kind)
                for sk in getattr(rc, "sub", ()):
                    ctx.count("sub_" + sk)
            # framing: the update is consumed exactly, so the Bell that follows is understood
            positional = [rc for rc in rects if rc.kind != "qemu"]
            want_tail = (["commit:" + ";".join("%d.%d.%d.%d" % (rc.x, rc.y, rc.w, rc.h) for rc in positional)] if positional else []) + ["bell"]
            if any(t.startswith("raise:") for t in flat) or flat[-len(want_tail):] != want_tail or flat[0] != "begin":
                ctx.violate("framing", dict(rp, observed="after the update the client's trace ends %r, expected %r" % (flat[-3:], want_tail)))
                break
            # CopyRect is handed over with exact source and destination
            copies = [t for t in flat if t.startswith("copy:")]
            wantc = ["copy:%d:%d:%d:%d:%d:%d" % rc.copy for rc in rects if rc.kind == "copyrect"]
            if copies != wantc:
                ctx.violate("copyrect-args", dict(rp, observed="copy callbacks %r, expected %r" % (copies, wantc)))
            # the screen shows exactly the pixels the server encoded
            for rc in rects:
                if rc.kind == "desktop":
                    ref.resize(rc.w, rc.h)
                elif rc.kind == "cursor":
                    cursor_seen = True
                for (x, y, w, h, px) in rc.paint:
                    ref.paint(x, y, w, h, px, pf)
            got = screen_rgb(c)
            want = ref.rgb()
            if got != want:
                what = "size %r vs %r" % (got and got[:2], want and want[:2])
                if got and want and got[:2] == want[:2]:
                    i = next(i for i in range(0, len(got[2]), 3) if got[2][i:i + 3] != want[2][i:i + 3]) // 3
                    what = "pixel (%d,%d): screen %r, server encoded %r" % (i % got[0], i // got[0], tuple(got[2][3 * i:3 * i + 3]), tuple(want[2][3 * i:3 * i + 3]))
                ctx.violate("pixels", dict(rp, observed=what))
                break
            ml_extra.append((len(chunks), "none" if got is None else "%d %d %d" % (got[0], got[1], fnv64(got[2]))))
        # model: replay all chunks, ask for the screen after each update
        ml = model_lines("lib", opts, zlog, [])
        ci = 0
        want_screens = []
        for upto, stok in ml_extra:
            for ch in chunks[ci:upto]:
                ml.append("rfb-recv " + hx(ch))
            ci = upto
            ml.append("rfb-screen")
            want_screens.append((len(ml) - 1, stok))
        flat_all = toks(trace)
        meta.append((len(lines), len(zlog), flat_all, want_screens, ml, {"pixel_format": pf_name(pf), "options": opts, "stream": hx(b"".join(chunks))}))
        lines += ml
    unlimit_memory(oldlim)
    mout = ctx.drive(lines)
    if mout is not None:
        for off, nz, flat_all, want_screens, ml, inp in meta:
            mt = []
            for i, l in enumerate(ml):
                if l.startswith("rfb-recv"):
                    p = mout[off + i].split(" ")
                    mt += [] if p[1:] == ["-"] else p[1:]
            if until_close(flat_all) != until_close(mt):
                k = next((i for i, (x, y) in enumerate(zip(flat_all, mt)) if x != y), min(len(flat_all), len(mt)))
                ctx.disagree("model-vs-decoders", {"input": inp, "impl": flat_all[max(0, k - 2):k + 3], "model": mt[max(0, k - 2):k + 3], "at": k})
                continue
            for idx, stok in want_screens:
                if mout[off + idx] != stok:
                    ctx.disagree("model-vs-screen", {"input": inp, "impl": stok, "model": mout[off + idx]})
                    break


def pf_name(pf):
    return vclient.PF2IM.get(pf, repr(pf))
