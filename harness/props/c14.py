"""C14 -- Authentication responses are exactly what a conforming server verifies."""
from __future__ import annotations
from unittest import mock
from impl import *  # noqa
from Cryptodome.Cipher import AES, DES
from Cryptodome.Hash import MD5

ID = "C14"
PROOF_MODULES = ["VncProofs.C14", "VncProofs.C14Conv"]
THEOREMS = ["Vnc.C14_revbits", "Vnc.C14_key", "Vnc.C14_nonascii", "Vnc.C14_response", "Vnc.C14_ip_fp", "Vnc.C14_rounds_inverse", "Vnc.C14_f_length",
            "Vnc.C14_des_inverse", "Vnc.C14_powmod", "Vnc.C14_long_to_bytes_len", "Vnc.C14_long_to_bytes_value", "Vnc.C14_ard_len",
            "Vnc.C14_ard_agree", "Vnc.C14_ard_recover", "Vnc.C14_cred_block", "Vnc.C14_ard_conversation_38"]
TRUSTED = [
    "Lean 4.33 kernel; standard axioms only",
    "Cryptodome: DES is compared with the Lean DES of VncSpec/DES.lean (FIPS 46-3 tables, known-answer test in the kernel) on every run; AES-128-ECB and MD5 are abstract functions in the theorems (dec(enc(x)) = x, length preserving) and are used as they are by the reference server of the harness",
    "VncModel/Crypto.lean (_vnc_des, sendPassword, long_to_bytes, pow, the ARD framing) is tied to rfb.py by this correspondence run",
]
ASSUMPTIONS = ["passwords are ASCII (a non-ASCII character within the first eight raises UnicodeEncodeError: C14_nonascii, exercised)",
               "ARD credentials are at most 64 bytes of UTF-8 each; the DH modulus is positive and fits the announced key length"]
RULE = ("VNC auth: passwords of length 0..20 over all of ASCII (plus non-ASCII in the malformed stream), random and structured challenges (all-zero, all-ones, single bit); "
        "ARD: key lengths 1,2,8,16,128, random moduli/generators/server keys, secrets engineered so that the public or the shared value has leading zero bytes, "
        "credentials of 0..64 bytes ASCII and non-ASCII; a reference server holding the private key decrypts the reply; non-trivial = distinct case")


def ref_des_response(pw: str, chal: bytes) -> bytes:
    key = (pw.encode("ascii") + bytes(8))[:8]
    key = bytes(int("{:08b}".format(k)[::-1], 2) for k in key)
    return DES.new(key, DES.MODE_ECB).encrypt(chal)


def run(ctx):
    r = ctx.rng
    c, trace = mk_client(rfb.RFBClient)
    # ---- VNC authentication
    cases = []
    pws = ["", "a", "passw0rd", "12345678", "123456789", "longer than eight", " ", "        ", "pw\n", "hunter2 ", "\x00", "\x7f" * 8, "A" * 20]
    for _ in range(ctx.n(250, 3000)):
        pws.append("".join(chr(r.randrange(128)) for _ in range(r.randint(0, 20))))
    chals = [bytes(16), b"\xff" * 16, bytes([1] + [0] * 15), bytes([0] * 15 + [128])]
    for pw in pws:
        ch = r.choice(chals) if r.random() < .3 else bytes(r.randrange(256) for _ in range(16))
        cases.append((pw, ch))
    bad_pws = ["é", "pässword", "1234567é", "12345678é", "日本"]
    lines = []
    results = []
    for pw, ch in cases + [(p, bytes(16)) for p in bad_pws]:
        del trace[:]
        c._challenge = ch
        try:
            c.sendPassword(pw)
            got = "ok " + hx(trace[-1][1])
        except UnicodeEncodeError:
            got = "err unicode"
        except Exception as e:  # noqa
            got = "err " + exc_class(e)
        results.append(got)
        lines.append("crypto vncresp %s %s" % (pw.encode().hex() or "-", hx(ch)))
        ctx.case({"password": pw, "challenge": hx(ch), "response": got} if len(ctx.samples) < 2 and len(pw) > 8 else None, key=("vnc", pw, ch))
        ctx.count("vnc_auth")
        # the property: DES-ECB of the challenge under the mirrored, NUL padded first eight characters
        if pw.isascii():
            want = "ok " + hx(ref_des_response(pw, ch))
            if got != want:
                ctx.violate("vnc-response", {"input": {"password": pw, "challenge": hx(ch)}, "impl": got, "spec": want,
                                             "how": "RFBClient.sendPassword vs DES-ECB(challenge) under the RFC 6143 7.2.2 key (reference computed with Cryptodome in the harness)"})
    # the same through each client class: a server that asks for VNC authentication gets that response on the wire,
    # for every password the user gave - the empty one included (key of eight NULs)
    import rfbgen
    for pw, ch in cases[:13] + cases[13:13 + ctx.n(30, 300)]:
        if not pw.isascii():
            continue
        for kind, ver in (("lib", b"RFB 003.008\n"), ("cli", b"RFB 003.007\n"), ("base", b"RFB 003.008\n"), ("lib", b"RFB 003.003\n"), ("api", b"RFB 003.008\n")):
            if kind == "api":
                # the password as handed to vncdotool.api.connect (reactor replaced by a recorder)
                from vncdotool import api

                class _Rx:
                    running = True
                    callWhenRunning = callFromThread = staticmethod(lambda f, *a, **k: None)
                with use_reactor(_Rx()):
                    proxy = api.connect("h", password=pw)
                cl = proxy.factory.buildProtocol(None)
                tr = []
                cl.transport = rfbgen.FakeTransport(tr)
                cl.connectionMade()
            else:
                cl, tr, _ = rfbgen.new_client(kind, factory=r.choice(["standin", "instance", "class"]), password=pw)
            if ver == b"RFB 003.003\n":
                parts = [ver, struct.pack("!I", 2) + ch]
            else:
                parts = [ver, bytes([1, 2]), ch]
            rfbgen.feed_impl(cl, tr, parts)
            ws = [t[2:] for t in rfbgen.toks(tr) if t.startswith("w:")]
            want = hx(ref_des_response(pw, ch))
            ctx.count("vnc_auth_conversation_" + kind)
            ctx.case(None, key=("conv", kind, pw, ch))
            if not ws or ws[-1] != want:
                ctx.violate("vnc-response-on-the-wire", {"input": {"client": kind, "banner": ver.decode(), "password": pw, "challenge": hx(ch)},
                                                         "impl": "writes after the challenge: %r; trace %r" % (ws[1:], rfbgen.toks(tr)[-4:]), "spec": want,
                                                         "how": "whole handshake on an in-memory transport: the bytes the client writes in answer to the challenge"})
    # whole Apple Remote Desktop conversations: the server offers security type 30 (alone, or next to VNC authentication /
    # None in any order); the client names 30, says nothing until generator, key length, modulus and server key have all
    # arrived, then sends exactly one reply of 128 + keyLen bytes
    for offer in ([30], [2, 30], [30, 2], [1, 30], [30, 1, 2], [18, 30, 2]):
        for kind in ("lib", "base"):
            L = r.choice([1, 2, 8, 16, 128])
            mod = (r.getrandbits(8 * L) | 1 | (1 << (8 * L - 1))).to_bytes(L, "big")
            skey = r.getrandbits(8 * L).to_bytes(L, "big")
            cl, tr, _ = rfbgen.new_client(kind, factory=r.choice(["standin", "instance", "class"]), password="pw", username="user")
            parts = [b"RFB 003.008\n", bytes([len(offer)]) + bytes(offer), struct.pack("!HH", r.choice([2, 5]), L), mod[:max(1, L // 2)], mod[max(1, L // 2):] + skey[:L - 1]]
            per = rfbgen.feed_impl(cl, tr, parts)
            early = [t for q in per[2:] for t in q if t.startswith("w:")]
            sel = [t for t in per[1] if t.startswith("w:")]
            per2 = rfbgen.feed_impl(cl, tr, [skey[L - 1:]])
            final = [t for t in per2[0] if t.startswith("w:")]
            ctx.count("ard_conversations")
            ctx.case(None, key=("ard-conv", tuple(offer), kind, L))
            if sel != ["w:1e"] or early or final != ["w:" + rfbgen.ARD_TOKEN.hex()]:
                ctx.violate("ard-conversation", {"input": {"client": kind, "offered_security_types": offer, "keyLen": L},
                                                 "impl": "selected %r; wrote %r before the server key was complete; then %r" % (sel, early, final),
                                                 "spec": "selects 30 (the highest it supports), is silent until the server key is complete, then one reply (128 + keyLen bytes)",
                                                 "how": "whole handshake on an in-memory transport (the reply's content is checked by the _encryptArd leg)"})
    # spec (Lean DES) vs Cryptodome, on the same cases
    for pw, ch in cases[:ctx.n(150, 1500)]:
        lines.append("crypto specresp %s %s" % (pw.encode("ascii")[:8].hex() or "-", hx(ch)))
    nvr = len(cases) + len(bad_pws)
    # ---- ARD
    ard_cases = []
    for _ in range(ctx.n(120, 1500)):
        L = r.choice([1, 2, 8, 16, 128])
        m = r.getrandbits(8 * L) | 1
        if L >= 2 and r.random() < .25:
            m = r.getrandbits(8 * (L - r.randint(1, L - 1))) | 1      # a modulus VALUE shorter than the key length: leading zero bytes on the wire
            ctx.count("ard_modulus_with_leading_zero_bytes")
        if m < 3:
            m = 251 if L == 1 else (1 << (8 * L - 1)) + 1
        g = r.choice([2, 3, 5, 7, 2, 5, 0x7FFF, 0x8000, 0xFFFF, 65521, r.randrange(2, 65536)])
        a = r.getrandbits(64) | 1
        sk = pow(g, a, m)
        # engineer secrets whose public or shared value has leading zero bytes
        sec = None
        want_zero = r.random() < .5 and L >= 2
        for _try in range(400):
            s_ = r.getrandbits(r.choice([8, 64, 512, 4096]))
            if not want_zero:
                sec = s_
                break
            if pow(g, s_, m) < 256 ** (L - 1) or pow(sk, s_, m) < 256 ** (L - 1):
                sec = s_
                break
        if sec is None:
            sec = s_
        def cred():
            k = r.random()
            n_ = r.choice([0, 1, 8, 63, 64])
            if k < .6:
                return "".join(chr(r.randrange(33, 127)) for _ in range(n_))
            s2 = ""
            while len((s2 + "é").encode()) <= n_:
                s2 += r.choice("éß€日a")
                if len(s2.encode()) > n_:
                    s2 = s2[:-1]
                    break
            return s2
        ard_cases.append((g, L, m, sk, a, sec, cred(), cred()))
    ard_results = []
    for (g, L, m, sk, a, sec, user, pw) in ard_cases:
        del trace[:]
        c.factory.username, c.factory.password = user, pw
        try:
            # the parameters as they arrive on the wire: generator and key length (2 x u16), modulus, server key
            c._handleDHAuth(struct.pack("!HH", g, L))
            c._handleDHAuthKey(m.to_bytes(L, "big"))
            del trace[:]
            with hook("urandom", lambda n, sec=sec: sec.to_bytes(n, "big")):
                c._handleDHAuthCert(sk.to_bytes(L, "big"))
            reply = trace[-1][1]
            err = None
        except Exception as e:  # noqa
            reply, err = b"", exc_class(e)
        ard_results.append((reply, err))
        lines.append("crypto ard %d %d %s %s %s" % (g, L, hx(m.to_bytes(L, "big")), hx(sk.to_bytes(L, "big")), hx(sec.to_bytes(512, "big"))))
        lead = pow(g, sec, m) < 256 ** (L - 1) or pow(sk, sec, m) < 256 ** (L - 1)
        ctx.count("ard_leading_zero" if lead else "ard_plain")
        ctx.case({"g": g, "keyLen": L, "user": user, "reply_len": len(reply)} if len(ctx.samples) < 3 else None, key=("ard", g, L, m, sec, user, pw))
        rp = {"input": {"generator": g, "keyLen": L, "modulus": hex(m), "serverKey": hex(sk), "server_private": hex(a), "client_secret": hex(sec), "user": user, "password": pw},
              "how": "RFBClient._encryptArd with os.urandom patched; a reference server with the private key decrypts the reply"}
        if err:
            ctx.violate("ard-raises", dict(rp, observed="raised " + err))
            continue
        if len(reply) != 128 + L:
            ctx.violate("ard-length", dict(rp, observed="reply is %d bytes, expected 128 + %d" % (len(reply), L)))
            continue
        pub = int.from_bytes(reply[128:], "big")
        shared = pow(pub, a, m).to_bytes(L, "big")
        plain = AES.new(MD5.new(shared).digest(), AES.MODE_ECB).decrypt(reply[:128])
        want = user.encode().ljust(64, b"\0") + pw.encode().ljust(64, b"\0")
        if plain != want:
            ctx.violate("ard-credentials", dict(rp, observed="the server recovers %r..., expected %r..." % (plain[:12], want[:12])))
    mout = ctx.drive(lines)
    if mout is not None:
        for i, got in enumerate(results):
            if mout[i] != got:
                pw, ch = (cases + [(p, bytes(16)) for p in bad_pws])[i]
                ctx.disagree("model-vs-sendPassword", {"input": {"password": pw, "challenge": hx(ch)}, "impl": got, "model": mout[i]})
        off = nvr
        nspec = ctx.n(150, 1500)
        for i, (pw, ch) in enumerate(cases[:nspec]):
            want = "ok " + hx(ref_des_response(pw, ch))
            if mout[off + i] != want:
                ctx.disagree("LeanDES-vs-Cryptodome", {"input": {"key_bytes": pw[:8], "challenge": hx(ch)}, "impl": want, "model": mout[off + i]})
        off += min(nspec, len(cases))
        for i, (g, L, m, sk, a, sec, user, pw) in enumerate(ard_cases):
            reply, err = ard_results[i]
            p = mout[off + i].split(" ")
            if err or len(p) != 3:
                continue
            pub, shared = bytes.fromhex(p[1]), bytes.fromhex(p[2])
            want = AES.new(MD5.new(shared).digest(), AES.MODE_ECB).encrypt(user.encode().ljust(64, b"\0") + pw.encode().ljust(64, b"\0")) + pub
            if want != reply:
                ctx.disagree("model-vs-_encryptArd", {"input": {"g": g, "keyLen": L, "modulus": hex(m), "serverKey": hex(sk), "secret": hex(sec)}, "impl": hx(reply)[-64:], "model": hx(want)[-64:]})
