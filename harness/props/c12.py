"""C12 -- The client's screen is the exact composition of everything the server sent."""
from __future__ import annotations
from rfbgen import *  # noqa

ID = "C12"
PROOF_MODULES = ["VncProofs.C12", "VncProofs.C13Cli", "VncProofs.EndToEnd", "VncProofs.C12Cursor", "VncProofs.Capstone"]
THEOREMS = ["Vnc.C12_tidy", "Vnc.C12_step", "Vnc.C12_refines", "Vnc.C12_update_pixels", "Vnc.C12_growth", "Vnc.C12_first",
            "Vnc.C12_resize", "Vnc.C12_nocursor", "Vnc.C12_cli_nocursor", "Vnc.sys_drain_screen", "Vnc.E2E_session", "Vnc.C12_drawCursor_frame", "Vnc.C12_cursor_step", "Vnc.C12_cursor_frame", "Vnc.C12_cursor_frame_fresh", "Vnc.C12_cursor_resize_size", "Vnc.C12_dirty_empty", "Vnc.C12_repaint_cleans", "Vnc.E2E_session_refines", "Vnc.applyOuts_canvasRun"]
TRUSTED = [
    "Lean 4.33 kernel; standard axioms only",
    "VncModel/Canvas.lean (updateRectangle / updateDesktopSize / updateCursor / drawCursor on exact pixel functions) is tied to client.py + Pillow by this correspondence run: same callback histories, screen size and all pixels compared",
    "Pillow: Image.frombytes raw modes RGB/RGBX/BGR/BGRX/BGR;16, Image.new, paste (clipping, 1-bit masks) are modelled as exact pixel functions (probed); canvas allocation (memory) is not modelled: coordinates are capped at 400",
]
ASSUMPTIONS = ["C12_refines: no cursor shape is being composited (no-cursor option, or no cursor rectangle received); with a local cursor painting the pointer into the screen is the feature - that case is covered by the model correspondence only",
               "pixel data has the announced length (the RFB layer guarantees it: C02)"]
RULE = ("(a) histories of 1..25 callbacks: updateRectangle at and away from the origin, partly/entirely beyond the current image, overlapping, zero-area; "
        "updateDesktopSize up and down; updateCursor under each of {default, pseudocursor, nocursor, nocursor+pseudocursor} with pointer moves; in each of the five image modes; "
        "(b) wire sessions: ServerInit + 1..6 updates of 1..3 rectangles (raw/RRE/hextile/ZRLE/CopyRect/cursor) with desktop-size rectangles that announce the current size, the image's size, or a new one; "
        "non-trivial = distinct history with >= 3 callbacks of which one grows or resizes the screen, or wire session with a desktop-size rectangle")

MODES = {m: pf for pf, m in vclient.PF2IM.items()}


def cli_nocursor_leg(ctx):
    """--nocursor as the user gives it (alone and together with --localcursor) through the real vncdo command line: cursor
    shapes never reach the screen"""
    from appgen import Vncdo
    from appsession import Workdir
    r = ctx.rng
    with Workdir():
        for localcursor in (False, True):
            for _ in range(ctx.n(3, 20)):
                v = Vncdo(["key", "a"], nocursor=True, localcursor=localcursor)
                try:
                    if v.factory is None:
                        continue
                    v.connect()
                    pf = vclient.RGB32
                    v.feed(b"RFB 003.008\n" + bytes([1, 1]) + struct.pack("!I", 0) + server_init(12, 8, pf, b"x"))
                    sess = Session(pf)
                    ref = Canvas()
                    full = enc_raw(r, pf, 0, 0, 12, 8)
                    cur = enc_cursor(r, pf, r.randrange(3), r.randrange(3), r.choice([3, 8]), r.choice([2, 4]))
                    cur.body = cur.body[:len(cur.body) - ((cur.w + 7) // 8) * cur.h] + b"\xff" * (((cur.w + 7) // 8) * cur.h)
                    upd = enc_raw(r, pf, 0, 0, 5, 3)
                    for rects in ([full], [cur], [upd]):
                        v.feed(sess.update(rects))
                        for rc in rects:
                            for (x, y, w, h, px) in rc.paint:
                                ref.paint(x, y, w, h, px, pf)
                    got, want = screen_rgb(v.proto), ref.rgb()
                    ctx.count("cli_nocursor_sessions")
                    ctx.case(None, key=("cli-nocursor", localcursor, hx(cur.body)[:16]))
                    if got != want:
                        ctx.violate("composition-cli-nocursor", {"input": {"command_line": "vncdo --nocursor" + (" --localcursor" if localcursor else "") + " key a",
                                                                           "cursor_rect": [cur.x, cur.y, cur.w, cur.h]},
                                                                 "observed": "the screen differs from what the server sent (a cursor shape was composited although --nocursor was given)",
                                                                 "how": "the real vncdo() entry point with an in-memory transport: full update, cursor-shape update, small update under the pointer"})
                finally:
                    v.close()


def wire_sessions(ctx):
    """the same property end to end: bytes of a conforming server through the real decoder into the screen.  Emphasis on
    desktop-size changes: announcing the size the desktop already has (after a partial or an over-grown image), up, down."""
    r = ctx.rng
    meta, lines = [], []
    oldlim = limit_memory(8 << 30)
    for si in range(ctx.n(60, 600)):
        pf = r.choice(ACCEPTED_PF)
        w0, h0 = r.choice([1, 8, 16, 40]), r.choice([1, 8, 16, 40])
        opts = {"nocursor": True, "pseudodesktop": True}
        if r.random() < .4:
            opts["pseudocursor"] = True
        c, trace, zlog = new_client("lib", **opts)
        hs = b"RFB 003.008\n" + bytes([1, 1]) + struct.pack("!I", 0) + server_init(w0, h0, pf, b"d")
        chunks = [hs]
        feed_impl(c, trace, [hs])
        sess = Session(pf)
        ref = Canvas()
        announced = (w0, h0)
        screens = []
        history = []
        bad = False
        for ui in range(r.randint(1, 6)):
            rects = []
            for _ in range(r.choice([1, 1, 2, 3])):
                j = r.random()
                if j < .35:
                    k = r.random()
                    if k < .45:
                        w, h = announced                         # the size the desktop already has
                    elif k < .6 and ref.w is not None:
                        w, h = ref.w, ref.h                      # the size of the client's (possibly over-grown) image
                    else:
                        w, h = r.choice([1, 8, 16, 40, 60]), r.choice([1, 8, 16, 40, 60])
                    rects.append(enc_desktop(w, h))
                    announced = (w, h)
                elif j < .45:
                    rects.append(rand_rect(r, pf, ["cursor"], maxarea=200, maxpos=20))
                else:
                    rects.append(rand_rect(r, pf, ["raw", "raw", "rre", "hextile", "zrle", "copyrect"], maxarea=900, maxpos=r.choice([1, 10, 50])))
            msg = sess.update(rects, False, r=r)
            parts = [msg]
            if r.random() < .4 and len(msg) > 2:
                cs = sorted(r.sample(range(1, len(msg)), min(2, len(msg) - 1)))
                parts = [msg[a:b] for a, b in zip([0] + cs, cs + [len(msg)])]
            per = feed_impl(c, trace, parts)
            chunks += parts
            history.append([(rc.kind, rc.x, rc.y, rc.w, rc.h) for rc in rects])
            for rc in rects:
                ctx.count("wire_" + rc.kind)
                if rc.kind == "desktop":
                    ref.resize(rc.w, rc.h)
                for (x, y, w, h, px) in rc.paint:
                    ref.paint(x, y, w, h, px, pf)
            got, want = screen_rgb(c), ref.rgb()
            inp = {"pixel_format": vclient.PF2IM.get(pf), "options": opts, "server_init": [w0, h0], "updates": history, "stream": hx(b"".join(chunks))}
            ctx.case({"updates": history, "screen": got and list(got[:2])} if len(ctx.samples) < 4 and len(history) >= 2 else None,
                     key=("wire", si, ui) if any(k[0] == "desktop" for u in history for k in u) else None)
            if got != want:
                what = "size %r, composition has %r" % (got and got[:2], want and want[:2])
                if got and want and got[:2] == want[:2]:
                    i = next(i for i in range(0, len(got[2]), 3) if got[2][i:i + 3] != want[2][i:i + 3]) // 3
                    what = "pixel (%d,%d): screen %r, composition %r" % (i % got[0], i // got[0], tuple(got[2][3 * i:3 * i + 3]), tuple(want[2][3 * i:3 * i + 3]))
                ctx.violate("composition-wire", {"input": inp, "observed": what,
                                                 "how": "a conforming server's bytes through the real VNCDoToolClient (no-cursor option); screen vs the reference canvas (latest write wins, never-sent pixels black, exactly the announced size after a desktop-size rectangle)"})
                bad = True
                break
            screens.append((len(chunks), "none" if got is None else "%d %d %d" % (got[0], got[1], fnv64(got[2]))))
        if bad:
            continue
        ml = model_lines("lib", opts, zlog, [])
        ci = 0
        want_screens = []
        for upto, stok in screens:
            for ch in chunks[ci:upto]:
                ml.append("rfb-recv " + hx(ch))
            ci = upto
            ml.append("rfb-screen")
            want_screens.append((len(ml) - 1, stok))
        meta.append((len(lines), want_screens, {"pixel_format": vclient.PF2IM.get(pf), "options": opts, "stream": hx(b"".join(chunks))}))
        lines += ml
    unlimit_memory(oldlim)
    return meta, lines


def run(ctx):
    r = ctx.rng
    n = ctx.n(300, 5000)
    lines, meta = [], []
    for hi in range(n):
        mode = r.choice(list(MODES))
        pf = MODES[mode]
        curs = r.choice(["default", "default", "nocursor", "pseudocursor", "nocursor+pseudocursor"])
        c, trace, _ = new_client("lib", nocursor=("nocursor" in curs), pseudocursor=("pseudocursor" in curs))
        c.image_mode = mode
        c.width, c.height = r.choice([1, 8, 40, 320]), r.choice([1, 8, 40, 320])     # as ServerInit leaves them (the protocol layer's attributes)
        ref = Canvas()
        ops = []
        has_cursor = False
        # pixels that may differ from the composition because the pointer shape was stamped there and the server has not
        # repainted them since (VncProofs/C12Cursor.lean `dirtyStep`): under a stamp = cursor box at pointer - hotspot, mask bit set
        dirty, cur_shape = set(), None

        def stamp():
            if cur_shape is None:
                return set()
            cw, ch, cmask, fx_, fy_ = cur_shape
            ox, oy = c.x - fx_, c.y - fy_
            st = (cw + 7) // 8
            return {(ox + a, oy + b) for b in range(ch) for a in range(cw) if cmask[b * st + a // 8] >> (7 - a % 8) & 1 and ox + a >= 0 and oy + b >= 0}
        ml = ["cv-new %d %s" % ("nocursor" in curs, mode.encode().hex())]
        for _ in range(r.randint(1, 25)):
            k = r.random()
            if k < .7:
                w = r.choice([0, 1, 2, 3, 7, 16, 17, 40]) if r.random() < .8 else r.randint(1, 60)
                h = r.choice([0, 1, 2, 3, 7, 16, 17, 40]) if r.random() < .8 else r.randint(1, 60)
                x = r.choice([0, 0, 0, 1, 5, 16, 100]) if r.random() < .6 else r.randrange(300)
                y = r.choice([0, 0, 0, 1, 5, 16, 100]) if r.random() < .6 else r.randrange(300)
                px = [rand_rgb(r) for _ in range(w * h)]
                data = b"".join(pixel_bytes(pf, p) for p in px)
                ops.append(("upd", x, y, w, h, len(data)))
                c.updateRectangle(x, y, w, h, data)
                ref.paint(x, y, w, h, px, pf)
                if data:
                    dirty = {q for q in dirty if not (x <= q[0] < x + w and y <= q[1] < y + h)} | stamp()
                ml.append("cv-upd %d %d %d %d %s" % (x, y, w, h, hx(data) or "-"))
            elif k < .85:
                w, h = r.choice([0, 1, 5, 50, 120, 320]), r.choice([0, 1, 5, 50, 120, 320])
                ops.append(("resize", w, h))
                c.width, c.height = w, h          # the protocol layer records the geometry, then calls the callback
                c.updateDesktopSize(w, h)
                ref.resize(w, h)
                ml.append("cv-resize %d %d" % (w, h))
            elif k < .93:
                w, h = r.choice([0, 1, 3, 8, 9, 17]), r.choice([0, 1, 3, 8, 9])
                fx, fy = r.randrange(0, 5), r.randrange(0, 5)
                px = [rand_rgb(r) for _ in range(w * h)]
                img = b"".join(pixel_bytes(pf, p) for p in px)
                mask = bytes(r.randrange(256) for _ in range(((w + 7) // 8) * h))
                ops.append(("cursor", fx, fy, w, h))
                has_cursor = True
                c.updateCursor(fx, fy, w, h, img, mask)
                if "nocursor" not in curs:
                    cur_shape = (w, h, mask, fx, fy)
                    dirty |= stamp()
                ml.append("cv-cursor %d %d %d %d %s %s" % (fx, fy, w, h, hx(img) or "-", hx(mask) or "-"))
            else:
                x, y = r.randrange(0, 60), r.randrange(0, 60)
                ops.append(("ptr", x, y))
                c.x, c.y = x, y           # mouseMove without the wire
                ml.append("rfb-ptr %d %d" % (x, y))
        ml.append("rfb-screen")
        got = screen_rgb(c)
        gtok = "none" if got is None else "%d %d %d" % (got[0], got[1], fnv64(got[2]))
        grow = any(o[0] == "resize" for o in ops) or len([o for o in ops if o[0] == "upd"]) >= 2
        ctx.case({"mode": mode, "cursor_option": curs, "ops": [list(o) for o in ops][:8], "screen": gtok} if hi < 3 else None,
                 key=repr((mode, curs, ops)) if len(ops) >= 3 and grow else None)
        ctx.count("mode_" + mode); ctx.count("cursor_" + curs)
        for o in ops:
            ctx.count("op_" + o[0])
        # the property: exact composition (when no cursor shape is composited)
        if not has_cursor or "nocursor" in curs:
            want = ref.rgb()
            if got != want:
                what = "size %r vs %r" % (got and got[:2], want and want[:2])
                if got and want and got[:2] == want[:2]:
                    i = next(i for i in range(0, len(got[2]), 3) if got[2][i:i + 3] != want[2][i:i + 3]) // 3
                    what = "pixel (%d,%d): screen %r, composition %r" % (i % got[0], i // got[0], tuple(got[2][3 * i:3 * i + 3]), tuple(want[2][3 * i:3 * i + 3]))
                ctx.violate("composition", {"input": {"mode": mode, "cursor_option": curs, "ops": [list(o) for o in ops], "model_lines": ml},
                                            "observed": what, "how": "callbacks on a real VNCDoToolClient vs the reference canvas (latest write wins, never-sent pixels black)"})
        elif got is not None or ref.rgb() is not None:
            # ... and with a pointer shape being composited: exact size, and the composition everywhere outside the stamps
            want = ref.rgb()
            what = None
            if got is None or want is None or got[:2] != want[:2]:
                what = "size %r, composition has %r" % (got and got[:2], want and want[:2])
            else:
                W = got[0]
                for i in range(0, len(got[2]), 3):
                    if got[2][i:i + 3] != want[2][i:i + 3] and ((i // 3) % W, (i // 3) // W) not in dirty:
                        what = "pixel (%d,%d) is under no pointer stamp, yet the screen has %r where the composition has %r" % (
                            (i // 3) % W, (i // 3) // W, tuple(got[2][i:i + 3]), tuple(want[2][i:i + 3]))
                        break
            ctx.count("histories_with_a_composited_pointer")
            if what:
                ctx.violate("composition-outside-cursor", {"input": {"mode": mode, "cursor_option": curs, "ops": [list(o) for o in ops], "model_lines": ml},
                                                           "observed": what, "how": "callbacks on a real VNCDoToolClient; pointer shape composited: the screen must have the size of the composition and equal it wherever no stamp (cursor box at pointer - hotspot, mask bit set) lies that the server has not repainted since (C12_cursor_frame)"})
        meta.append((len(lines), len(ml), gtok, mode, curs, ops, ml))
        lines += ml
    cli_nocursor_leg(ctx)
    wire_meta, wire_lines = wire_sessions(ctx)
    mout = ctx.drive(lines + wire_lines)
    if mout is not None:
        base = len(lines)
        for off, screens, inp in wire_meta:
            for idx, stok in screens:
                if mout[base + off + idx] != stok:
                    ctx.disagree("model-vs-client-screen-wire", {"input": inp, "impl": stok, "model": mout[base + off + idx]})
                    break
        for off, k, gtok, mode, curs, ops, ml in meta:
            if mout[off + k - 1] != gtok:
                ctx.disagree("model-vs-client-screen", {"input": {"mode": mode, "cursor_option": curs, "ops": [list(o) for o in ops], "model_lines": ml},
                                                          "impl": gtok, "model": mout[off + k - 1]})
