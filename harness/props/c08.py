"""C08 -- Script commands run strictly one after another with the requested timing."""
from __future__ import annotations
from appsession import *  # noqa

ID = "C08"
PROOF_MODULES = ["VncProofs.C08", "VncProofs.C10", "VncProofs.C08Sys"]
THEOREMS = ["Vnc.C08_advance_markers", "Vnc.C08_advance_writes", "Vnc.C08_closes_last", "Vnc.C08_pause", "Vnc.C08_timer_resumes",
            "Vnc.C08_commit_does_not_resume_timer", "Vnc.C08_delay", "Vnc.C10_sound", "Vnc.C08_sys_ordered", "Vnc.C08_sys_close_after_all", "Vnc.C08_sys_ordT"]
TRUSTED = [
    'VncSpec/Order.lean scriptOrdered (the checker C08_sys_ordered is about) is evaluated by the driver on every history observed on the real vncdo',
    "Lean 4.33 kernel; standard axioms only",
    "the executor of VncModel/Client.lean IS the abstraction of Twisted's Deferred chain as vncdo uses it (a callback that returns a Deferred suspends the chain until it fires; inlineCallbacks for mouseDrag; reactor.callLater ordering): validated by the correspondence run against the real vncdo() under a virtual clock, not proved",
    "the model is tied to command.py / client.py by that run: every write, marker, save, close and timer time of whole sessions",
]
ASSUMPTIONS = ["durations are dyadic decimals and delays are 0/125/500 ms so that all times are exact ticks of 1/40960 s; no float is compared"]
RULE = ("scripts of 1..10 commands over the full vocabulary (key, type, move, click, mdown/mup, drag, pause/sleep, capture, rcapture, expect, rexpect) with delay in {0,125,500} ms and warp in "
        "{0.5,1,2,4}; random schedules of timer firings and server updates (answers arrive early, late, split into chunks; unsolicited updates); "
        "non-trivial = distinct (script, schedule) with >= 3 commands of which one finishes asynchronously")


def cmd_bounds(words):
    """indices at which a command starts"""
    nargs = {"key": 1, "type": 1, "move": 2, "click": 1, "mdown": 1, "mup": 1, "drag": 2, "pause": 1, "sleep": 1, "capture": 1, "rcapture": 5, "expect": 2, "rexpect": 4}
    out = []
    i = 0
    while i < len(words):
        out.append(i)
        i += 1 + nargs.get(words[i], 0)
    out.append(len(words))
    return out


def oracle_sequential(spec, res):
    """the property on the implementation's own trace"""
    try:
        cmds = getattr(spec, "cmdtoks", None) or cmd_tokens(spec.words, {}, spec.delay)
    except Exception:
        return None
    timeline = []   # (time, token)
    for e in res["events"]:
        now = e[-1]["now"]
        for t in e[1]:
            timeline.append((now, t))
    # skip everything up to and including 'made'
    idx = next((i for i, (_, t) in enumerate(timeline) if t == "made"), None)
    if idx is None:
        return None
    tl = timeline[idx + 1:]
    active = None
    start_t, finish_t = {}, {}
    last_finished = -1
    closed = False
    for now, t in tl:
        if closed and (t.startswith("w:") or t.startswith("start") or t.startswith("finish")):
            return "activity after vncdo closed the connection: %s" % t
        if t.startswith("start:"):
            i = int(t[6:])
            if active is not None:
                return "command %d starts while command %d has not finished" % (i, active)
            if i != last_finished + 1:
                return "command %d starts out of order (last finished %d)" % (i, last_finished)
            active = i
            start_t[i] = now
        elif t.startswith("finish:"):
            i = int(t[7:])
            if active != i:
                return "command %d finishes but %r is active" % (i, active)
            active = None
            last_finished = i
            finish_t[i] = now
        elif t.startswith("w:"):
            if active is None:
                return "bytes %s written while no command is active" % t[:20]
        elif t == "close":
            if active is not None or last_finished != len(cmds) - 1:
                return "connection closed although command %r is active / only %d of %d commands finished" % (active, last_finished + 1, len(cmds))
            closed = True
    # the generated scripts are valid: no command may raise (a failed chain skips the rest of the script and never closes)
    for now, t in tl:
        if t.startswith("chainfailed"):
            return "a command of a valid script raised (%s): the commands after it are skipped and the connection is never closed" % t
    # a capture finishes asynchronously: between its start and its finish a framebuffer update must have been completed
    # (the reply to its request); a later command's bytes before that would be bytes sent before the capture finished
    cur, seen_commit, seen_save = None, False, False
    for now, t in tl:
        if t.startswith("start:"):
            cur, seen_commit, seen_save = int(t[6:]), False, False
        elif t.startswith("commit:"):
            seen_commit = True
        elif t.startswith("save:"):
            seen_save = True
        elif t.startswith("finish:"):
            i = int(t[7:])
            if i < len(cmds) and cmds[i].split(":")[0] in ("captureScreen", "captureRegion") and seen_commit and not seen_save:
                return "command %d (%s) finished before its image was written: the commands after it ran while the capture was still waiting" % (i, cmds[i].split(":")[0])
            if i < len(cmds) and cmds[i].split(":")[0] in ("captureScreen", "captureRegion") and not seen_commit:
                return "command %d (%s) finished without any completed update after its request: the commands after it ran before the capture was done" % (i, cmds[i].split(":")[0])
            cur = None
    # the bytes of each command are the ones the command, as written at that place, stands for (keys and pointer)
    per = {}
    cur = None
    for now, t in tl:
        if t.startswith("start:"):
            cur = int(t[6:]); per[cur] = []
        elif t.startswith("finish:"):
            cur = None
        elif t.startswith("w:") and cur is not None:
            per[cur].append(t[2:])
    st = {"pos": (0, 0), "mask": 0}
    for i, c in enumerate(cmds):
        if i not in finish_t:
            break
        p = c.split(":")
        want = None
        if p[0] in ("keyPress", "keyDown", "keyUp"):
            key = bytes.fromhex(p[1]).decode()
            ks = [vclient.KEYMAP.get(k) or ord(k) for k in ([key] if len(key) == 1 else key.split("-"))]
            evs = {"keyPress": [(k, 1) for k in ks] + [(k, 0) for k in reversed(ks)], "keyDown": [(k, 1) for k in ks], "keyUp": [(k, 0) for k in ks]}[p[0]]
            want = [struct.pack("!BBxxI", 4, d, k).hex() for k, d in evs]
        elif p[0] == "mouseMove":
            st["pos"] = (int(p[1]), int(p[2])); want = [struct.pack("!BBHH", 5, st["mask"], *st["pos"]).hex()]
        elif p[0] == "mouseDown":
            st["mask"] |= 1 << (int(p[1]) - 1); want = [struct.pack("!BBHH", 5, st["mask"], *st["pos"]).hex()]
        elif p[0] == "mouseUp":
            st["mask"] &= ~(1 << (int(p[1]) - 1)); want = [struct.pack("!BBHH", 5, st["mask"], *st["pos"]).hex()]
        elif p[0] == "mousePress":
            m1 = st["mask"] | 1 << (int(p[1]) - 1); st["mask"] = m1 & ~(1 << (int(p[1]) - 1))
            want = [struct.pack("!BBHH", 5, m1, *st["pos"]).hex(), struct.pack("!BBHH", 5, st["mask"], *st["pos"]).hex()]
        elif p[0] == "mouseDrag":
            st["pos"] = (int(p[1]), int(p[2]))
        if want is not None and per.get(i) != want:
            return "command %d (%s) wrote %r, as written it stands for %r" % (i, c, per.get(i), want)
    # pause durations
    for i, c in enumerate(cmds):
        if i in finish_t:
            if c.startswith("pauseArg:"):
                wd = bytes.fromhex(c[9:]).decode()
                want = ticks(float(wd) / spec.warp)
                if finish_t[i] - start_t[i] != want:
                    return "pause %s with warp %s lasted %d ticks, requested %d" % (wd, spec.warp, finish_t[i] - start_t[i], want)
            if c == "pauseDelay" and finish_t[i] - start_t[i] != ticks(spec.delay / 1000.0):
                return "delay pause lasted %d ticks instead of %d" % (finish_t[i] - start_t[i], ticks(spec.delay / 1000.0))
    # with a delay: between two consecutive script commands at least the delay elapses
    if spec.delay:
        real = [i for i, c in enumerate(cmds) if c != "pauseDelay"]
        for a, b in zip(real, real[1:]):
            if a in finish_t and b in start_t and start_t[b] - finish_t[a] < ticks(spec.delay / 1000.0) and not cmds[a].startswith("keyPress") :
                return "only %d ticks between command %d and %d, delay is %d ms" % (start_t[b] - finish_t[a], a, b, spec.delay)
    return None


ord_lines = []


def run(ctx):
    r = ctx.rng
    n = ctx.n(220, 1500)
    lines, checks = [], []
    with Workdir():
        for si in range(n):
            spec = build_session(r)
            if si % 5 == 4:
                # the first completed update after a capture request carries a cursor shape only: the capture (and everything
                # after it) has to wait for the next one
                spec = build_session(r, kinds=["key", "capture", "key", "pause"], ncmd=r.randint(2, 4))
                spec.words = ["capture", "first.png"] + spec.words
                spec.nocursor = True
                spec.first_update_cursor_only = True
                ctx.count("sessions_first_update_cursor_only")
            if si % 5 == 2:
                # several captures with --incremental-refreshes: from the second one on the client already holds a screen
                spec = build_session(r, kinds=["capture", "capture", "key", "pause", "rcapture"], ncmd=r.randint(3, 6))
                spec.incremental = True
                ctx.count("incremental_capture_sessions")
            flat_words = list(spec.words)
            if r.random() < .35 and len(spec.words) >= 4:
                # part of the script lives in a script file named in the middle of the command line
                bounds = cmd_bounds(spec.words)
                if len(bounds) >= 3:
                    a_, b_ = sorted(r.sample(bounds[:-1], 2)) if len(bounds) > 3 else (bounds[0], bounds[1])
                    if a_ < b_:
                        with open("part%d.vdo" % si, "w") as f:
                            f.write(" ".join(spec.words[a_:b_]) + "\n")
                        d_ = spec.delay
                        pre = cmd_tokens(spec.words[:a_], {}, d_)
                        spec.cmdtoks = pre + (["pauseDelay"] if pre and d_ else []) + (["pauseDelay"] if d_ else []) + cmd_tokens(spec.words[a_:], {}, d_)
                        spec.words = spec.words[:a_] + ["part%d.vdo" % si] + spec.words[b_:]
                        ctx.count("with_script_file")
            res = drive(r, spec)
            spec.file_words, spec.words = spec.words, flat_words        # the model and the oracle see the script as written out
            inp = {"words": spec.words, "command_line": getattr(spec, "file_words", spec.words), "delay": spec.delay, "warp": spec.warp, "incremental": spec.incremental, "size": list(spec.size),
                   "events": [(e[0], hx(e[1])[:60] if e[0] == "recv" else "") for e in spec.events][:40]}
            rp = {"input": inp, "how": "the real vncdo() (option parser, build_tool, VNCDoCLIFactory/Client, Deferred chain) with the reactor replaced by a virtual clock and an in-memory transport"}
            asyncs = any(w_ in ("pause", "sleep", "drag", "capture", "rcapture", "expect", "rexpect") for w_ in spec.words)
            ncmds = sum(1 for w_ in spec.words if w_ in ("key", "type", "move", "click", "mdown", "mup", "drag", "pause", "sleep", "capture", "rcapture", "expect", "rexpect"))
            ctx.case({"words": spec.words, "delay": spec.delay, "warp": spec.warp, "finished": res.get("finished"),
                      "trace": [t for e in res["events"] for t in e[1]][10:22]} if len(ctx.samples) < 3 and asyncs and ncmds >= 3 else None,
                     key=si if asyncs and ncmds >= 3 else None)
            ctx.count("finished" if res.get("finished") else "unfinished")
            for w_ in spec.words:
                if w_ in ("key", "type", "move", "click", "mdown", "mup", "drag", "pause", "sleep", "capture", "rcapture", "expect", "rexpect"):
                    ctx.count("cmd_" + w_)
            if res["error"] or not res["connects"]:
                ctx.violate("vncdo-rejects-valid-script", dict(rp, observed="vncdo() ended with %r / %r" % (res["error"], res["exit_code"])))
                continue
            bad = oracle_sequential(spec, res)
            # the same history judged by the checker the theorem C08_sys_ordered is about (VncSpec/Order.lean, through the driver)
            flat_ = [t for e in res["events"] for t in e[1]]
            if "made" in flat_:
                hist = []
                for t in flat_[flat_.index("made") + 1:]:
                    if t.startswith("start:"): hist.append("s" + t[6:])
                    elif t.startswith("finish:"): hist.append("f" + t[7:])
                    elif t.startswith("w:"): hist.append("w")
                    elif t.startswith("save:"): hist.append("v")
                    elif t.startswith("chainfailed"): hist.append("x")
                    elif t == "close": hist.append("c")
                ord_lines.append(("ordered " + " ".join(hist), rp, bool(bad)))
            if bad:
                ctx.violate("sequencing", dict(rp, observed=bad))
            elif res.get("stalled"):
                ctx.violate("stall", dict(rp, observed="the script has not finished, the connection is up, yet no timer is pending and nobody waits for an update: the remaining commands can never run and the connection is never closed"))
            ml, chk = compare_with_model(ctx, spec, res, "model-vs-vncdo", inp)
            if chk:
                checks.append((len(lines), len(ml), chk))
                lines += ml
    mout = ctx.drive(lines)
    if mout is not None:
        for off, k, chk in checks:
            chk(mout[off:off + k])
    oout = ctx.drive([l for l, _, _ in ord_lines])
    if oout is not None:
        for (l, rp, pybad), o in zip(ord_lines, oout):
            ctx.count("histories_judged_by_the_lean_checker")
            if o == "ok false" and not pybad:
                ctx.violate("sequencing", dict(rp, observed="the history of script actions %r violates the discipline of VncSpec/Order.lean (scriptOrdered): a command started out of turn, or bytes / an image / the close outside a command" % l[8:200]))
