"""C05 -- Pointer events always carry the true position and button state."""
from __future__ import annotations
import struct
from impl import *  # noqa
from twisted.internet import task, defer

ID = "C05"
PROOF_MODULES = ["VncProofs.C05", "VncProofs.C05Sys"]
THEOREMS = ["Vnc.C05_init", "Vnc.C05_mask_eq", "Vnc.C05_step", "Vnc.C05_invariant", "Vnc.C05_click", "Vnc.C05_setBtn_testBit",
            "Vnc.C05_clearBtn_testBit", "Vnc.C05_drag_zero", "Vnc.C05_drag_last", "Vnc.C05_drag_mask", "Vnc.C05_drag_points",
            "Vnc.C05_range", "Vnc.C05_drag_on_segment", "Vnc.C05_drag_in_box", "Vnc.C05_drag_monotone", "Vnc.C05_in_range", "Vnc.C05_wire", "Vnc.C05_sys_consistent", "Vnc.C05_sys_remembers"]
TRUSTED = [
    'VncSpec/PtrOrder.lean consistentFrom (the checker C05_sys_consistent is about) is evaluated by the driver on the pointer events of every history observed on the real client',
    "Lean 4.33 kernel; standard axioms only",
    "VncModel/Pointer.lean is tied to client.py mouseMove/mouseDown/mouseUp/mousePress/mouseDrag + rfb.pointerEvent by this correspondence run",
    "Python int bit operations (|, & ~) on non-negative ints and floor division as modelled; struct.pack('!BBHH')",
    "Twisted Deferred chaining / inlineCallbacks / IReactorTime.callLater (the drag's pauses run on a task.Clock in the harness): exercised, not proved",
]
ASSUMPTIONS = ["positions 0..65535, buttons 1..8, drag step >= 1 (out-of-range arguments raise struct.error / ValueError)"]
RULE = ("histories of 1..40 operations (move/click/down/up/drag) over boundary-biased positions, all 8 buttons, repeated downs/ups, drags in all "
        "directions incl. zero length, steps 1,2,3,7,> distance; executed through a real Deferred chain with a virtual clock; "
        "non-trivial = distinct history containing a drag or a button operation")

B = [0, 1, 2, 15, 16, 17, 255, 256, 1000, 32767, 32768, 65534, 65535]


def gen_history(r, maxlen):
    ops = []
    pos = (0, 0)
    for _ in range(r.randint(1, maxlen)):
        k = r.random()
        if k < .3:
            pos = (r.choice(B) if r.random() < .5 else r.randrange(65536), r.choice(B) if r.random() < .5 else r.randrange(65536))
            ops.append(("m",) + pos)
        elif k < .33:
            ops.append(("r", r.choice([1, 8, 640]), r.choice([1, 8, 480])))
        elif k < .36:
            ops.append(("s",))          # the server sends a cursor shape and a small rectangle (the local image is 4x4)
        elif k < .45:
            ops.append(("c", r.randint(1, 8)))
        elif k < .6:
            ops.append(("d", r.randint(1, 8)))
        elif k < .75:
            ops.append(("u", r.randint(1, 8)))
        else:
            # drag: short distances mostly (each intermediate point is an event)
            kind = r.random()
            dx = r.choice([0, 0, 1, -1, 2, -3, 5, -7, 10, 13, -20, 30])
            dy = r.choice([0, 0, 1, -1, 2, -3, 5, -7, 10, 13, -20, 30])
            if kind < .1:
                dx = dy = 0
            x = min(65535, max(0, pos[0] + dx))
            y = min(65535, max(0, pos[1] + dy))
            step = r.choice([1, 1, 1, 2, 3, 7, 50])
            ops.append(("g", x, y, step))
            pos = (x, y)
    return ops


def run_impl(ops):
    """Execute the history through a Deferred chain on the real client; returns [(t, bytes)], op boundaries."""
    clock = task.Clock()
    old = use_reactor(clock); old.__enter__()
    try:
        c, trace = connect()
        stamped = []
        orig_write = c.transport.write

        def w(data):
            stamped.append((round(clock.seconds() * 5), bytes(data)))   # ticks of 0.2 s (times are k*0.2 up to float error)
        c.transport.write = w
        marks = []
        d = defer.Deferred()
        C = type(c)
        for i, op in enumerate(ops):
            d.addCallback(lambda cl, i=i: (marks.append(("start", i, len(stamped))), cl)[1])
            if op[0] == "m":
                d.addCallback(C.mouseMove, op[1], op[2])
            elif op[0] == "c":
                d.addCallback(C.mousePress, op[1])
            elif op[0] == "d":
                d.addCallback(C.mouseDown, op[1])
            elif op[0] == "u":
                d.addCallback(C.mouseUp, op[1])
            elif op[0] == "r":
                d.addCallback(lambda cl, op=op: (cl.updateDesktopSize(op[1], op[2]), cl)[1])
            elif op[0] == "s":
                d.addCallback(lambda cl: (cl.updateCursor(0, 0, 2, 2, bytes(16), b"\xc0\xc0"), cl.updateRectangle(0, 0, 4, 4, bytes(64)), cl)[2])
            else:
                if op[3] == 1:
                    d.addCallback(C.mouseDrag, op[1], op[2])
                else:
                    d.addCallback(C.mouseDrag, op[1], op[2], op[3])
            d.addCallback(lambda cl, i=i: (marks.append(("finish", i, len(stamped))), cl)[1])
        errs = []
        d.addErrback(lambda f: errs.append(f))
        done = []
        d.addCallback(lambda cl: done.append(1))
        d.callback(c)
        guard = 0
        while not done and not errs and guard < 100000:
            guard += 1
            calls = clock.getDelayedCalls()
            if not calls:
                return {"err": "chain did not finish and no timer is pending"}
            due = min(dc.getTime() for dc in calls)
            gap = due - clock.seconds()
            if abs(gap - 0.2) > 1e-9:
                return {"err": "pause of %r s instead of 0.2 s" % gap}
            n0 = len(stamped)
            clock.advance(gap / 2)      # half a pause: nothing may happen
            if len(stamped) != n0:
                return {"err": "event in the middle of a 0.2 s pause"}
            clock.advance(due - clock.seconds())
        if errs:
            return {"err": exc_class(errs[0].value)}
        if not done:
            return {"err": "chain did not finish"}
        return {"events": stamped, "marks": marks}
    finally:
        old.__exit__(None, None, None)


def oracle(ops, res):
    """The property, checked directly on what the implementation sent."""
    if "err" in res:
        return "implementation failed: " + res["err"]
    evs = [(t,) + struct.unpack("!BBHH", b) if len(b) == 6 else (t, None) for t, b in res["events"]]
    marks = res["marks"]
    pos = (0, 0)
    held = set()
    k = 0  # index into evs
    for i, op in enumerate(ops):
        s = [m for m in marks if m[0] == "start" and m[1] == i][0][2]
        f = [m for m in marks if m[0] == "finish" and m[1] == i][0][2]
        if s != k:
            return f"op {i} {op}: started at event {s}, but {k} events belong to earlier operations (an earlier operation was still running)"
        mine = evs[s:f]
        k = f
        mask = sum(1 << (b - 1) for b in held)
        for e in mine:
            if e[1] != 5:
                return f"op {i} {op}: not a 6-byte PointerEvent: {e}"
        if op[0] in ("r", "s"):
            want = []          # a desktop-size change sends nothing and leaves position and buttons alone
        elif op[0] == "m":
            pos = (op[1], op[2])
            want = [(mask,) + pos]
        elif op[0] == "d":
            held.add(op[1])
            want = [(sum(1 << (b - 1) for b in held),) + pos]
        elif op[0] == "u":
            held.discard(op[1])
            want = [(sum(1 << (b - 1) for b in held),) + pos]
        elif op[0] == "c":
            m1 = sum(1 << (b - 1) for b in held | {op[1]})
            held.discard(op[1])
            m2 = sum(1 << (b - 1) for b in held)
            want = [(m1,) + pos, (m2,) + pos]
        else:
            tx, ty, step = op[1], op[2], op[3]
            pts = [(e[3], e[4]) for e in mine]
            if not pts or pts[-1] != (tx, ty):
                return f"op {i} {op}: drag does not end on the target: {pts[-3:]}"
            if any(e[2] != mask for e in mine):
                return f"op {i} {op}: drag changed the button mask"
            ox, oy = pos
            dx, dy = tx - ox, ty - oy
            dmax = max(abs(dx), abs(dy))
            inter = pts[:-1]
            if len(inter) != len(range(0, dmax, step)):
                return f"op {i} {op}: {len(inter)} intermediate points, expected {len(range(0, dmax, step))}"
            for j, (px, py) in enumerate(inter):
                sv = j * step
                if not (min(ox, tx) <= px <= max(ox, tx) and min(oy, ty) <= py <= max(oy, ty)):
                    return f"op {i} {op}: point {px, py} outside the bounding box"
                # on the segment up to integer rounding: |p - (o + d*s/dmax)| < 1 per coordinate
                if not (abs(dmax * (px - ox) - dx * sv) < dmax and abs(dmax * (py - oy) - dy * sv) < dmax):
                    return f"op {i} {op}: point {px, py} (s={sv}) is off the straight segment"
            for a, b in zip(pts, pts[1:]):
                if (b[0] - a[0]) * dx < 0 or (b[1] - a[1]) * dy < 0:
                    return f"op {i} {op}: drag moves backwards {a}->{b}"
            ts = [e[0] for e in mine]
            if any(t2 - t1 != 1 for t1, t2 in zip(ts, ts[1:])):
                return f"op {i} {op}: drag events not 0.2 s apart: ticks {ts[:6]}"
            pos = (tx, ty)
            want = None
        if want is not None:
            got = [(e[2], e[3], e[4]) for e in mine]
            if got != want:
                return f"op {i} {op}: sent {got}, expected {want} (mask, x, y)"
    if k != len(evs):
        return "events after the last operation"
    return None


def model_line(ops):
    # desktop-size changes are not pointer operations: the model's pointer state machine never sees them
    return "ptr " + " ".join(":".join(str(v) for v in op) for op in ops if op[0] not in ("r", "s"))


def run(ctx):
    r = ctx.rng
    hist = [[("m", 10, 20), ("d", 1), ("c", 1), ("m", 50, 60)],
            [("g", 100, 30, 3)], [("m", 5, 5), ("g", 5, 5, 1), ("c", 2)],
            [("d", 8), ("d", 1), ("g", 4, 0, 1), ("u", 8), ("u", 8), ("c", 8)],
            [("m", 65535, 65535), ("g", 65530, 65535, 2), ("g", 65535, 65530, 7)]]
    for _ in range(ctx.n(250, 4000)):
        hist.append(gen_history(r, 40 if r.random() < .2 else 12))
    mout = ctx.drive([model_line(h) for h in hist])
    cons_lines = []
    for i, ops in enumerate(hist):
        res = run_impl(ops)
        nt = any(o[0] in "gcdu" for o in ops)
        ctx.case({"ops": [list(o) for o in ops][:8]} if i in (0, 5, 9) else None, key=repr(ops) if nt else None)
        for o in ops:
            ctx.count("op_" + o[0])
        bad = oracle(ops, res)
        if bad:
            ctx.violate("pointer-history", {"input": {"ops": [list(o) for o in ops]}, "observed": bad,
                                            "how": "operations run through a Deferred chain on VNCDoToolClient with a task.Clock; events checked against position/held-set semantics"})
        if mout is not None and "events" in res:
            got = "ok " + (",".join(hx(b) for _, b in res["events"]) or "-")
            if got != mout[i]:
                ctx.disagree("model-vs-mouse-ops", {"input": {"ops": [list(o) for o in ops]}, "impl": got[:400], "model": mout[i][:400]})
        if "events" in res:
            # the events that reached the wire, judged by the checker the theorem C05_sys_consistent is about (VncSpec/PtrOrder.lean)
            evs = [struct.unpack("!BHH", bytes(b[1:6])) for _, b in res["events"] if len(b) == 6 and b[0] == 5]
            cons_lines.append(("ptrcons 0 0 0 " + " ".join("%d,%d,%d" % (x, y, m) for m, x, y in evs), ops, bool(bad)))
    cout = ctx.drive([l for l, _, _ in cons_lines])
    if cout is not None:
        for (l, ops, pybad), o in zip(cons_lines, cout):
            ctx.count("event_lists_judged_by_the_lean_checker")
            if o == "ok false" and not pybad:
                ctx.violate("pointer-history", {"input": {"ops": [list(o_) for o_ in ops]},
                                                "observed": "the pointer events on the wire %r are not consistent (VncSpec/PtrOrder.lean consistentFrom): an event changes position and buttons at once, or more than one button" % l[14:200],
                                                "how": "operations run through a Deferred chain on VNCDoToolClient with a task.Clock"})
