"""C04 -- Key commands put exactly the intended press/release events on the wire."""
from __future__ import annotations
import struct
from impl import *  # noqa

ID = "C04"
PROOF_MODULES = ["VncProofs.C04", "VncProofs.C13Cli"]
THEOREMS = ["Vnc.C04_keymap", "Vnc.C04_keymap_nodup", "Vnc.C04_special", "Vnc.C04_name", "Vnc.C04_char",
            "Vnc.C04_decode_single", "Vnc.C04_decode_minus", "Vnc.C04_decode_chord", "Vnc.C04_valid_keysym",
            "Vnc.C04_op_writes", "Vnc.C04_reject", "Vnc.C04_wire", "Vnc.C04_forcecaps", "Vnc.C04_type",
            "Vnc.C04_type_flat", "Vnc.C04_typefile", "Vnc.C04_cli_forcecaps"]
TRUSTED = [
    "Lean 4.33 kernel; standard axioms only",
    "KEYMAP / SPECIAL_KEYS_US are re-extracted from the live module on every run; C04_keymap (decide) compares them with the X11 table of VncSpec/Keys.lean in the kernel",
    "control flow of _decodeKey / keyPress / keyDown / keyUp / keyEvent is tied to VncModel/Keys.lean by this correspondence run",
    "str.isupper() is a parameter of the model (its value is passed per key); str.split, dict.get, ord, struct.pack as modelled",
]
ASSUMPTIONS = ["chord elements are table names or single characters (others raise TypeError: C04_reject, exercised in the malformed stream)",
               "`slash` maps to backslash: taken from the code, flagged in VncSpec/Keys.lean as not independently specified"]
RULE = ("every key name, every ASCII character, sampled BMP/astral characters, chords of 1..5 elements mixing names and characters, "
        "forced caps on/off, press/down/up; malformed: unknown names, empty elements, multi-character non-names; each case run on one long-lived client "
        "(so state leaking between operations shows); non-trivial = distinct (op, force_caps, key) with a chord of >= 2 elements or forced caps")

OPS = {"press": "keyPress", "down": "keyDown", "up": "keyUp"}


def run_impl(client, trace, op, fc, key):
    client.factory.force_caps = fc
    del trace[:]
    try:
        getattr(client, OPS[op])(key)
    except Exception as e:  # noqa
        # nothing may have been written (atomicity is part of the observation)
        return "err %s" % exc_class(e) + ("" if not trace else " partial=" + ",".join(hx(w) for w in writes(trace)))
    ws = writes(trace)
    return "ok " + (",".join(hx(w) for w in ws) if ws else "-")


def elem_text(e):
    return e[1] if e[0] == "n" else chr(e[1])


def elem_arg(e):
    return "n:" + (e[1].encode().hex() or "-") if e[0] == "n" else "c:%d" % e[1]


def gen(ctx):
    r = ctx.rng
    names = list(vclient.KEYMAP)
    chars = [ord(c) for c in "abzAZ09 -_+~!@#$%^&*(){}|:\"<>?,./;'[]\\`=éÉßΩжЖ中😀\x00\x7f\n\t"]
    cases = []
    # every name, every ASCII char, each op, both caps settings
    for n in names:
        for op in OPS:
            for fc in (False, True):
                cases.append((op, fc, [("n", n)]))
    for cp in list(range(0, 128)) + chars:
        for fc in (False, True):
            cases.append((r.choice(list(OPS)), fc, [("c", cp)]))
    nsample = ctx.n(400, 6000)
    for _ in range(nsample):
        cp = r.choice([r.randrange(0, 0x800), r.randrange(0x800, 0xD800), r.randrange(0xE000, 0x10000), r.randrange(0x10000, 0x110000)])
        cases.append((r.choice(list(OPS)), r.random() < .5, [("c", cp)]))
    for _ in range(ctx.n(1500, 30000)):
        k = r.randint(2, 5)
        es = []
        for _ in range(k):
            if r.random() < .6:
                es.append(("n", r.choice(names)))
            else:
                es.append(("c", r.choice(chars) if r.random() < .7 else r.randrange(33, 0x3000)))
        cases.append((r.choice(list(OPS)), r.random() < .4, es))
    # repeated identical chords (state must not leak between operations)
    for _ in range(ctx.n(100, 1000)):
        c = r.choice(cases)
        cases += [c, c]
    # malformed
    bad = ["", "nosuchkey", "ctrl-", "-ctrl", "ctrl--alt", "Ctrl", "F1", "ctrl-nosuch", "ab", "shift-", "--", "a-b-", "!@", "AB"]
    for b in bad:
        for fc in (False, True):
            cases.append((r.choice(list(OPS)), fc, [("raw", b)]))
    return cases


def run(ctx):
    client, trace = connect()
    cases = gen(ctx)
    mlines, slines, keys = [], [], []
    for op, fc, es in cases:
        if es[0][0] == "raw":
            key = es[0][1]
            sl = "speckey %s %d %d n:%s" % (op, fc, key.isupper(), key.encode().hex() or "-")
            if key == "":
                sl = None
        else:
            key = "-".join(elem_text(e) for e in es)
            sl = "speckey %s %d %d %s" % (op, fc, key.isupper(), " ".join(elem_arg(e) for e in es))
        keys.append(key)
        try:
            hexkey = key.encode("utf-8").hex() or "-"
        except UnicodeEncodeError:
            hexkey = None
        mlines.append("key %s %d %d %s" % (op, fc, key.isupper(), hexkey) if hexkey else "key bad")
        slines.append(sl or "speckey press 0 0")
    mout = ctx.drive(mlines)
    sout = ctx.drive(slines)
    # a second client whose server has acknowledged the QEMU extended key event pseudo-encoding (an update carrying the
    # -258 rectangle): key commands still go out as plain 8-byte KeyEvents
    client_q, trace_q = connect()
    client_q.dataReceived(struct.pack("!BxH", 0, 1) + struct.pack("!HHHHi", 0, 0, 0, 0, -258))
    del trace_q[:]
    for i, (op, fc, es) in enumerate(cases):
        key = keys[i]
        got = run_impl(client, trace, op, fc, key)
        if i % 4 == 0:
            got_q = run_impl(client_q, trace_q, op, fc, key)
            ctx.count("cases_after_qemu_ack")
            if got_q != got:
                ctx.violate("key-events-after-qemu-ack", {"input": {"op": op, "force_caps": fc, "key": key, "server_acknowledged_qemu_extended_keys": True},
                                                          "impl": got_q, "spec": (sout[i] if sout is not None else got),
                                                          "how": "the same operation on a client that has received the QEMU extended-key pseudo-rectangle"})
        nt = (op, fc, key) if (len(es) >= 2 or fc) else None
        ctx.case({"op": op, "force_caps": fc, "key": key, "impl": got} if len(es) == 3 else None, key=nt)
        ctx.count("err" if got.startswith("err") else "ok")
        if mout is not None and mout[i] != "bad-op" and mout[i] != got:
            ctx.disagree("model-vs-_decodeKey/keyEvent", {"input": {"op": op, "force_caps": fc, "key": key}, "impl": got, "model": mout[i]})
        if sout is not None and sout[i] != "bad-op" and sout[i] != got:
            ctx.violate("key-events", {"input": {"op": op, "force_caps": fc, "key": key, "elements": [list(e) for e in es]},
                                       "impl": got, "spec": sout[i],
                                       "how": "VNCDoToolClient.%s(key) on an in-memory transport vs VncSpec/Keys.lean (via vncdrv speckey)" % OPS[op]})
    # --force-caps as the user gives it, alone and combined with every other flag option, through the real vncdo() command line
    import itertools
    from appgen import Vncdo
    from appsession import Workdir
    from rfbgen import server_init
    with Workdir():
        for nocursor, localcursor, noresize, inc in itertools.product([False, True], repeat=4):
            for fc in (True, False):
                # ... and with a --delay between commands (then the script runs on timers: fire them all)
                delay_ms = 10 if (nocursor, localcursor, noresize, inc) in ((False, False, False, False), (True, False, True, False), (False, True, False, True)) else 0
                v = Vncdo(["key", "A", "key", "a", "type", "Hi!"], delay=delay_ms, force_caps=fc, nocursor=nocursor, localcursor=localcursor, no_desktop_resize=noresize, incremental=inc)
                try:
                    if v.factory is None:
                        continue
                    v.connect()
                    tk = v.feed(b"RFB 003.008\n" + bytes([1, 1]) + struct.pack("!I", 0) + server_init(4, 4, vclient.RGB32, b"x"))
                    guard = 0
                    while v.reactor.getDelayedCalls() and v.reactor.stopped_at is None and guard < 200:
                        guard += 1
                        tk = tk + v.fire()[1]
                    ctx.count("cli_force_caps_with_delay" if delay_ms else "cli_force_caps_without_delay")
                    ws = [bytes.fromhex(t[2:]) for t in tk if t.startswith("w:")]
                    keys_ = [(struct.unpack("!BBxxI", w_)[1], struct.unpack("!BBxxI", w_)[2]) for w_ in ws if len(w_) == 8 and w_[0] == 4]
                    sh = 0xFFE1

                    def press(k, caps):
                        return [(1, sh), (1, k), (0, k), (0, sh)] if caps else [(1, k), (0, k)]
                    want = press(0x41, fc) + press(0x61, False) + press(ord("H"), fc) + press(ord("i"), False) + press(ord("!"), fc)
                    ctx.count("cli_force_caps_combinations")
                    ctx.case(None, key=("cli-fc", fc, nocursor, localcursor, noresize, inc))
                    if keys_ != want:
                        ctx.violate("key-events-cli-force-caps", {"input": {"command_line": "vncdo" + (" --force-caps" if fc else "") + (" --nocursor" if nocursor else "") + (" --localcursor" if localcursor else "") +
                                                                            (" --disable-desktop-resizing" if noresize else "") + (" -i" if inc else "") + (" --delay %d" % delay_ms if delay_ms else "") + " key A key a type Hi!"},
                                                                  "impl": repr(keys_), "spec": repr(want),
                                                                  "how": "the real vncdo() entry point with an in-memory transport; (down, keysym) of every KeyEvent written"})
                finally:
                    v.close()
    # type / typefile expansion through the real build_command_list (command.py)
    from vncdotool import command
    from unittest import mock
    import tempfile, os
    for word_, meth in (("key", "keyPress"), ("kdown", "keyDown"), ("keydown", "keyDown"), ("kup", "keyUp"), ("keyup", "keyUp")):
        for key_ in ("a", "ctrl-c", "enter", "ctrl-+", "shift-+", "+", "+-a", "ctrl-alt-del", "A"):
            fac = mock.Mock()
            command.build_command_list(fac, [word_, key_])
            calls = [c.args for c in fac.deferred.addCallback.call_args_list]
            want = [(getattr(command.VNCDoCLIClient, meth), key_)]
            ctx.case(None, key=("keyword", word_, key_))
            ctx.count("key_command_words")
            if calls != want:
                ctx.violate("key-command-word", {"input": {"script": [word_, key_]}, "impl": repr(calls)[:200], "spec": "VNCDoCLIClient.%s(%r)" % (meth, key_),
                                                 "how": "build_command_list on a recording factory: which client operation the command word stands for"})
    texts = ["", "a", "Hello, World!", "a-b", "été", "tab\there", "x" * 40, "a\r\nb", "\r\n", "\n\r\n\r", "two\nlines\n", " lead and trail ", "q'\"\\#"]
    for _ in range(ctx.n(50, 500)):
        texts.append("".join(chr(ctx.rng.choice([ctx.rng.randrange(32, 127), ctx.rng.randrange(160, 0x2000), 10, 13, 9])) for _ in range(ctx.rng.randint(1, 12))))
    for t in texts:
        fac = mock.Mock()
        command.build_command_list(fac, ["type", t])
        calls = [c.args for c in fac.deferred.addCallback.call_args_list]
        want = [(command.VNCDoCLIClient.keyPress, ch) for ch in t]
        ctx.case(None, key=("type", t))
        if calls != want:
            ctx.violate("type-expansion", {"input": {"cmd": "type", "text": t}, "impl": repr(calls)[:300], "spec": repr(want)[:300]})
    tmp = tempfile.mkdtemp(prefix="verif-c04-")
    try:
        for j, t in enumerate(["a\r\nb\tc\n", "\r\r", "x", "line1\nline2\r\n\tend"] + texts[:20]):
            path = os.path.join(tmp, "f%d.txt" % j)
            with open(path, "w", newline="") as f:
                f.write(t)
            try:
                content = open(path).read()   # universal newlines, as the code reads it
            except Exception:
                continue
            fac = mock.Mock()
            command.build_command_list(fac, ["typefile", path])
            calls = [c.args for c in fac.deferred.addCallback.call_args_list]
            want = [(command.VNCDoCLIClient.keyPress, {"\n": "enter", "\t": "tab"}.get(ch, ch)) for ch in content if ch != "\r"]
            ctx.case(None, key=("typefile", t))
            if calls != want:
                ctx.violate("typefile-expansion", {"input": {"cmd": "typefile", "content": t}, "impl": repr(calls)[:300], "spec": repr(want)[:300]})
    finally:
        import shutil
        shutil.rmtree(tmp, ignore_errors=True)
