"""C16 -- The logging proxy is a transparent relay."""
from __future__ import annotations
from proxygen import *  # noqa
import rfbgen
from rfbgen import Session, gen_messages, server_init, limit_memory, unlimit_memory
from vncdotool import client as vclient

ID = "C16"
PROOF_MODULES = ["VncProofs.C17", "VncProofs.C01", "VncProofs.Framing"]
THEOREMS = ["Vnc.C16_progress", "Vnc.C16_no_spin", "Vnc.C16_steps_linear", "Vnc.C16_type_len", "Vnc.C16_v2s_total", "Vnc.C17_message", "Vnc.C17_messages",
            "Vnc.C17_handshake", "Vnc.rfb_progress", "Vnc.C15_no_spin", "Vnc.proxy_type_len"]
TRUSTED = [
    "Lean 4.33 kernel; standard axioms only",
    "forwarding itself is twisted.protocols.portforward (self.peer.transport.write(data)) and is exercised, not modelled; transparency then reduces to: the two logging parsers terminate on every input (C16_progress / C16_no_spin for RFBServer, rfb_progress / C15_no_spin for the logging RFBClient) and nothing they raise escapes dataReceived (the try/except of fix 36357b5, exercised with hostile and mis-framed streams)",
    "VncModel/Proxy.lean is tied to loggingproxy.RFBServer by the correspondence run (recorder output and the point where recording stops)",
]
ASSUMPTIONS = ["viewer messages of the seven understood types with arbitrary field values; server streams in the encodings vncdotool supports, in the pixel format the viewer selected (the logging decoder keeps its own idea of the format: when it mis-frames, it stops decoding - the relay is unaffected)"]
RULE = ("viewer sessions (every handshake variant; SetPixelFormat to accepted, 8-bit and random formats; SetEncodings with 0..300 entries; update requests; KeyEvents with any keysym up to 2^32-1; "
        "PointerEvents; ClientCutText of 0..5000 bytes; QEMU extended key events) interleaved with server streams (ServerInit + updates in every encoding, in the viewer-selected "
        "format) under whole / byte-wise / random chunkings; plus a malformed stream (unknown message types, unknown QEMU sub-types); non-trivial = distinct session with >= 3 viewer messages and >= 1 server message")


def two_viewers_leg(ctx):
    """two viewers served by ONE vnclog (`--forever`), the second connecting before the first one's outgoing connection is up:
    each session is relayed to its own server connection and back, nothing crosses over"""
    from unittest import mock
    from twisted.internet import reactor
    from vncdotool import loggingproxy as lp
    r = ctx.rng
    for si in range(ctx.n(4, 30)):
        fac = lp.VNCLoggingServerFactory("h", 1)

        class Out:
            def write(self, s):
                pass
        fac.output = Out()
        captured = []
        tv, ts, srvs, cls = [[], []], [[], []], [], []
        with mock.patch.object(reactor, "connectTCP", lambda h, p, f: captured.append(f)):
            for k in range(2):
                s_ = fac.buildProtocol(None)
                s_.transport = FakeTransport(tv[k], "")
                s_.connectionMade()
                srvs.append(s_)
        order = [0, 1] if r.random() < .5 else [1, 0]
        cls = [None, None]
        for k in order:
            c_ = captured[k].buildProtocol(None)
            c_.transport = FakeTransport(ts[k], "")
            c_.connectionMade()
            cls[k] = c_
        hs = [b"RFB 003.008\n\x01" + bytes([k]), None]
        sent_v = [b"RFB 003.008\n\x01" + bytes([k]) + struct.pack("!BBxxI", 4, 1, 0x61 + k) for k in range(2)]
        sent_s = [server_init(4 + k, 4, vclient.RGB32, b"s%d" % k) for k in range(2)]
        bad = None
        try:
            with Budget(10):
                for k in order:
                    srvs[k].dataReceived(sent_v[k])
                for k in reversed(order):
                    cls[k].dataReceived(sent_s[k])
        except BaseException as e:  # noqa
            bad = "raised " + exc_class(e)
        ctx.count("two_viewer_sessions")
        ctx.case(None, key=("two-viewers", si))
        for k in range(2):
            to_server = b"".join(t[1] for t in ts[k] if t[0] == "write")
            to_viewer = b"".join(t[1] for t in tv[k] if t[0] == "write")
            if not bad and (to_server != sent_v[k] or to_viewer != sent_s[k]):
                bad = "session %d: its server received %d of %d bytes (%s), its viewer %d of %d bytes" % (
                    k, len(to_server), len(sent_v[k]), "equal" if to_server == sent_v[k] else "different", len(to_viewer), len(sent_s[k]))
        if bad:
            ctx.violate("relay-two-viewers", {"input": {"viewers": 2, "outgoing_connections_established_in_order": order},
                                              "observed": bad,
                                              "how": "one VNCLoggingServerFactory, two viewer connections made before either outgoing connection, then data on all four transports"})


def run(ctx):
    two_viewers_leg(ctx)
    r = ctx.rng
    oldlim = limit_memory(6 << 30)
    n = ctx.n(260, 2000)
    lines, meta = [], []
    for si in range(n):
        pwreq = r.random() < .3
        hs, desc = viewer_handshake(r, pwreq, odd=(r.random() < .1))
        ctx.count("viewer_version_odd" if desc.startswith("odd") else "viewer_version_known")
        vmsgs = gen_viewer_messages(r, r.randint(0, 10), allow_unrecordable=(r.random() < .3))
        if si % 20 == 0:
            # corpus: key events the recorder cannot write - keysyms above the Unicode range, in particular those with bit 31
            # set (chr() raises OverflowError there, not ValueError), as KeyEvent and as QEMU extended key event
            ks = [0x80000000, 0xFFFFFFFF, 0x110000, 0x7FFFFFFF][(si // 20) % 4]
            vmsgs.insert(r.randint(0, len(vmsgs)), (struct.pack("!BBxxI", 4, 1, ks), ("key", ks, True)))
            vmsgs.insert(r.randint(0, len(vmsgs)), (struct.pack("!BBHII", 255, 0, 1, ks, 30), ("key", ks, True)))
            ctx.count("corpus_unrecordable_keysyms")
        malformed = r.random() < .12
        if malformed:
            bad = r.choice([bytes([r.choice([1, 7, 8, 9, 100, 150, 254])]) + bytes(r.randrange(256) for _ in range(r.randint(0, 6))), struct.pack("!BB", 255, r.choice([1, 2, 200])) + bytes(10)])
            vmsgs.insert(r.randint(0, len(vmsgs)), (bad, ("other",)))
        # the server side: ServerInit in a native format, then messages in the format in force: the native one, or the one
        # the viewer selects right after ClientInit (a conforming server switches when it has received SetPixelFormat)
        native = r.choice(rfbgen.ACCEPTED_PF + rfbgen.ODD_PF[:2])
        sel = native
        spf = b""
        if r.random() < .5:
            sel = r.choice(rfbgen.ACCEPTED_PF + [rfbgen.ODD_PF[1]])
            spf = struct.pack("!Bxxx", 0) + sel.to_bytes()
        vstream = hs + spf + b"".join(m[0] for m in vmsgs)
        sess = Session(sel)
        smsgs = gen_messages(r, sess, r.randint(0, 4), maxarea=900)
        sinit = server_init(r.choice([1, 64]), r.choice([1, 48]), native, b"n")
        sstream = sinit + b"".join(m[0] for m in smsgs)
        if r.random() < .1:
            sstream += bytes(r.randrange(256) for _ in range(r.randint(1, 40)))     # hostile tail for the logging decoder

        def chunked(data):
            k = r.random()
            if k < .3 or len(data) < 2:
                return [data] if data else []
            if k < .45 and len(data) <= 250:
                return [data[i:i + 1] for i in range(len(data))]
            cs = sorted(r.sample(range(1, len(data)), min(r.randint(1, 8), len(data) - 1)))
            return [data[a:b] for a, b in zip([0] + cs, cs + [len(data)])]
        # the viewer sends nothing beyond ClientInit before it has received ServerInit: chunk the two parts separately
        vch, sch = chunked(vstream[:len(hs)]) + chunked(vstream[len(hs):]), chunked(sstream)
        # any interleaving a real session allows: ServerInit follows ClientInit, data in the selected format follows SetPixelFormat
        order = []
        vi_ = si2 = 0
        vsent = ssent = 0
        while vi_ < len(vch) or si2 < len(sch):
            can_s = si2 < len(sch) and vsent >= len(hs) and (ssent + len(sch[si2]) <= len(sinit) or vsent >= len(hs) + len(spf))
            can_v = vi_ < len(vch) and (vsent < len(hs) or ssent >= len(sinit))
            if can_v and (not can_s or r.random() < .5):
                order.append("v"); vsent += len(vch[vi_]); vi_ += 1
            elif can_s:
                order.append("s"); ssent += len(sch[si2]); si2 += 1
            else:
                break
        p = Proxy(pwreq, 5000)
        if si % 7 == 3:
            # the medium of the script fails after a few entries (disk full): the recording may stop, the relay must not notice
            p.fail_after = r.choice([0, 1, 2, 5])
            ctx.count("sessions_with_a_failing_recorder")
        vi = si_ = 0
        ok = True
        ml = ["px-new %d %d" % (pwreq, 5000)]
        recs = []
        closes = []
        for d in order:
            if d == "v":
                ch = vch[vi]; vi += 1
                fwd, recd, exc = p.viewer_sends(ch)
                ml.append("px-recv " + hx(ch))
                recs.append(["rec:" + x.encode("utf-8", "surrogatepass").hex() for x in recd])
                closes.append(p.srv.transport.closed)
            else:
                ch = sch[si_]; si_ += 1
                fwd, exc = p.server_sends(ch)
            rp = {"input": {"handshake": desc, "password_required": pwreq, "recorder_fails_after_entries": p.fail_after, "viewer_stream": hx(vstream), "server_stream": hx(sstream)[:4000],
                            "viewer_chunks": [len(c) for c in vch], "server_chunks": [len(c) for c in sch], "order": "".join(order)},
                  "how": "in-memory VNCLoggingServerProxy/VNCLoggingClientProxy pair; every chunk must appear unchanged on the other side within the same dataReceived call"}
            if exc:
                ctx.violate("relay-exception" if exc != "spin" else "relay-stalls", dict(rp, observed="%s-side dataReceived raised / did not return: %s (chunk of %d bytes)" % ("viewer" if d == "v" else "server", exc, len(ch))))
                ok = False
                break
            if d == "v" and p.srv.transport.closed and vstream[:8] == b"RFB 003." and vstream[8:12] in (b"003\n", b"005\n", b"007\n", b"008\n"):
                ctx.violate("relay-closes", dict(rp, observed="the proxy closed the viewer's connection although its version line %r is one the recorder understands" % vstream[:12]))
                ok = False
                break
            if p.foreign(d):
                ctx.violate("relay-bytes", dict(rp, observed="while relaying a %s-side chunk the proxy wrote %s to the OTHER leg: bytes that neither side sent" % ("viewer" if d == "v" else "server", hx(p.foreign(d))[:60])))
                ok = False
                break
            if fwd != ch:
                ctx.violate("relay-bytes", dict(rp, observed="%s-side chunk %s was forwarded as %s" % ("viewer" if d == "v" else "server", hx(ch)[:80], hx(fwd)[:80])))
                ok = False
                break
        nv = len(vmsgs)
        ctx.case({"handshake": desc, "viewer_messages": nv, "server_messages": len(smsgs), "order": "".join(order)[:40]} if len(ctx.samples) < 3 and nv >= 3 else None,
                 key=si if nv >= 3 and smsgs else None)
        ctx.count("hs_" + desc.replace(" ", "_"))
        ctx.count("malformed" if malformed else "wellformed")
        ctx.count("recording_stopped" if not p.srv.recording else "recording_on")
        ctx.count("logger_stopped" if p.cl.vnclog is None else "logger_on")
        if ok and p.fail_after is None:
            meta.append((len(lines), ml, recs, closes, p.srv.recording, {"handshake": desc, "password_required": pwreq, "viewer_stream": hx(vstream), "viewer_chunks": [len(c) for c in vch]}))
            lines += ml
    unlimit_memory(oldlim)
    mout = ctx.drive(lines)
    if mout is not None:
        for off, ml, recs, closes, recording, inp in meta:
            mrec, stopped = [], False
            mclosed = False
            for i, l in enumerate(ml):
                if l.startswith("px-recv"):
                    o = mout[off + i]
                    mrec += [t for t in o.split(" ") if t.startswith("rec:")]
                    if "raise:" in o or o == "stopped":
                        stopped = True
                    if "closeviewer" in o.split(" "):
                        mclosed = True
            irec = [t for ch in recs for t in ch]
            if (any(closes) != mclosed) and recording:
                ctx.disagree("model-vs-RFBServer-close", {"input": inp, "impl": {"closed_viewer": any(closes)}, "model": {"closed_viewer": mclosed}})
            if irec != mrec or stopped == recording:
                ctx.disagree("model-vs-RFBServer", {"input": inp, "impl": {"records": len(irec), "recording": recording}, "model": {"records": len(mrec), "stopped": stopped}})
