"""C13 -- Client and server always agree on pixel format and encodings."""
from __future__ import annotations
from rfbgen import *  # noqa

ID = "C13"
PROOF_MODULES = ["VncProofs.C13", "VncProofs.C13Cli"]
THEOREMS = ["Vnc.C13_table", "Vnc.C13_mode_size", "Vnc.C13_modes", "Vnc.C13_accept_or_set", "Vnc.C13_in_force", "Vnc.C13_pf_stable",
            "Vnc.C13_encodings", "Vnc.C13_only_supported", "Vnc.C13_numbers", "Vnc.C13_defaults", "Vnc.C13_setencodings_wire", "Vnc.C13_cli_encodings", "Vnc.C12_cli_nocursor"]
TRUSTED = [
    "Lean 4.33 kernel; standard axioms only",
    "PF2IM, RGB32, BGR16, SUPPORTED_ENCODINGS, the encoding numbers and the factory defaults are re-extracted from the source on every run and the theorems re-checked against them",
    "vncConnectionMade / setImageMode / setPixelFormat / setEncodings are tied to connectionMade of VncModel/Rfb.lean by this correspondence run; Pillow's raw modes are modelled as exact pixel functions (decodePixel) and compared on probe pixels (BGR;16: all 65536 values in the thorough tier)",
]
ASSUMPTIONS = ["the preferred encoding is one of the real encodings with a decoder (a configuration outside that set is the user's)"]
RULE = ("ServerInit with random 16-byte pixel-format blocks (biased towards the five accepted formats and their one-field neighbours: depth 32, big-endian, swapped "
        "shifts, truecolour byte 2, non-zero padding), every server version incl. 3.889, all 32 option combinations, each preferred encoding, library and CLI client; "
        "followed by a Raw update of probe pixels (single-bit values, channel maxima, random) in the format in force; non-trivial = distinct (block, version, options)")

DECODABLE = {0, 1, 2, 4, 5, 16, -239, -223, -224, -258}


def rfc_pf(block):
    f = struct.unpack("!BBBBHHHBBBxxx", block)
    return (f[0], f[1], bool(f[2]), bool(f[3])) + f[4:]


def pf_tuple(pf):
    return (pf.bpp, pf.depth, pf.bigendian, pf.truecolor, pf.redmax, pf.greenmax, pf.bluemax, pf.redshift, pf.greenshift, pf.blueshift)


def rfc_rgb(pft, pix):
    """RFC 6143 7.4: channel = (value >> shift) & max, shown on 0..255 as c*255//max"""
    bpp, depth, be, tc, rm, gm, bm, rs, gs, bs = pft
    v = int.from_bytes(pix, "big" if be else "little")
    return ((v >> rs & rm) * 255 // rm, (v >> gs & gm) * 255 // gm, (v >> bs & bm) * 255 // bm)


def rfc_cpixel(pft, pix):
    """RFC 6143 7.7.5 CPIXEL: 3 bytes if bpp = 32, depth <= 24 and all colour bits are in the least OR the most significant
    3 bytes of the pixel value; the byte(s) dropped are the ones that carry no colour"""
    bpp, depth, be, tc, rm, gm, bm, rs, gs, bs = pft
    if bpp != 32 or depth > 24:
        return pix
    mask = (rm << rs) | (gm << gs) | (bm << bs)
    if mask < (1 << 24):
        return pix[1:] if be else pix[:3]
    if mask & 0xFF == 0:
        return pix[:3] if be else pix[1:]
    return pix


def gen_block(r):
    base = list(pf_tuple(r.choice(ACCEPTED_PF)))
    k = r.random()
    if k < .35:
        pass
    elif k < .75:
        i = r.randrange(10)
        alt = {0: [8, 16, 24, 32], 1: [8, 15, 16, 24, 32], 2: [True, False], 3: [True, False], 4: [31, 63, 255, 7], 5: [31, 63, 255], 6: [31, 255, 3],
               7: [0, 8, 11, 16, 24], 8: [0, 5, 8, 16], 9: [0, 8, 16, 24]}[i]
        base[i] = r.choice(alt)
    else:
        base = [r.choice([8, 16, 24, 32]), r.randrange(1, 33), r.random() < .5, r.random() < .8, r.choice([1, 7, 31, 255, 65535]), r.choice([3, 63, 255]),
                r.choice([3, 31, 255]), r.randrange(32), r.randrange(32), r.randrange(32)]
    blk = bytearray(struct.pack("!BB??HHHBBBxxx", *base))
    if r.random() < .2:
        blk[2] = r.choice([1, 2, 255]) if base[2] else 0       # any non-zero byte is "true"
        blk[3] = r.choice([1, 2, 255]) if base[3] else 0
    if r.random() < .2:
        blk[13:16] = bytes(r.randrange(256) for _ in range(3))  # padding is ignored
    return bytes(blk)


def probe_pixels(r, pft, n):
    bypp = (pft[0] + 7) // 8
    out = []
    for i in range(8 * bypp):
        out.append((1 << i).to_bytes(bypp, "little"))
    out += [bytes(bypp), b"\xff" * bypp]
    while len(out) < n:
        out.append(bytes(r.randrange(256) for _ in range(bypp)))
    return out[:n]


def cli_options_leg(ctx):
    """the options as the user gives them: the real `vncdo` command line -> SetEncodings after ServerInit"""
    import itertools
    from appgen import Vncdo
    from appsession import Workdir
    with Workdir():
        for nocursor, localcursor, noresize in itertools.product([False, True], repeat=3):
            v = Vncdo(["key", "a"], nocursor=nocursor, localcursor=localcursor, no_desktop_resize=noresize)
            try:
                if v.factory is None:
                    ctx.violate("announce", {"input": {"argv": "vncdo key a", "nocursor": nocursor, "localcursor": localcursor}, "observed": "vncdo did not try to connect: %r" % (v.error,)})
                    continue
                v.connect()
                toks_ = v.feed(b"RFB 003.008\n" + bytes([1, 1]) + struct.pack("!I", 0) + server_init(4, 4, vclient.RGB32, b"x"))
                ws = [t[2:] for t in toks_ if t.startswith("w:")]
                i = next((k for k, w_ in enumerate(ws) if w_.startswith("02")), None)
                got = None
                if i is not None:
                    cnt = struct.unpack("!H", bytes.fromhex(ws[i])[2:4])[0]
                    got = [struct.unpack("!i", bytes.fromhex(x))[0] for x in ws[i + 1:i + 1 + cnt]]
                want = [0] + ([-239] if (nocursor or localcursor) else []) + ([] if noresize else [-223]) + [-224, -258]
                mo = ctx.drive(["cli-opts %d %d %d" % (localcursor, nocursor, noresize)])
                if mo is not None and got is not None and mo[0] != "ok " + ",".join(str(e) for e in got):
                    ctx.disagree("model-vs-vncdo-options", {"input": {"nocursor": nocursor, "localcursor": localcursor, "disable_desktop_resizing": noresize},
                                                            "impl": got, "model": mo[0]})
                ctx.count("cli_option_combinations")
                ctx.case(None, key=("cli", nocursor, localcursor, noresize))
                if got != want:
                    ctx.violate("announce-cli-options", {"input": {"command_line": "vncdo" + (" --nocursor" if nocursor else "") + (" --localcursor" if localcursor else "") + (" --disable-desktop-resizing" if noresize else "") + " key a"},
                                                         "observed": "SetEncodings %r, the options say %r" % (got, want),
                                                         "how": "the real vncdo() entry point (option parser, build_tool) with an in-memory transport: SetEncodings sent after ServerInit"})
            finally:
                v.close()


def logging_client_leg(ctx):
    """vnclog's own decoder (a VNCDoToolClient on the server side of the proxy) follows the format the VIEWER selects:
    it renders in that format if it can, and stops rendering (image mode None) if it cannot - never in a stale format"""
    from proxygen import Proxy
    r = ctx.rng
    for si in range(ctx.n(40, 400)):
        p = Proxy(False, 5000)
        p.viewer_sends(b"RFB 003.008\n\x01\x01")
        native = r.choice(ACCEPTED_PF)
        p.server_sends(server_init(4, 4, native, b"n"))
        # a first update in the native format (the decoder has now sized pixels once)
        sess0 = Session(native)
        p.server_sends(sess0.update([enc_raw(r, native, 0, 0, 4, 4)]))
        seq = []
        for _ in range(r.randint(1, 3)):
            pf = r.choice(ACCEPTED_PF + ODD_PF)
            seq.append(pf)
            _, _, exc = p.viewer_sends(struct.pack("!Bxxx", 0) + pf.to_bytes())
            if exc:
                break
        vl = p.cl.vnclog
        if vl is None:
            ctx.count("logging_client_gone")
            continue
        want = vclient.PF2IM.get(seq[-1])
        ctx.count("logging_client_formats")
        ctx.case(None, key=("vnclog", si))
        if vl.image_mode == want and want is not None:
            # ... and pixel data in the selected format is decoded in that format (sizes and channels)
            sess1 = Session(seq[-1])
            rc = enc_raw(r, seq[-1], 0, 0, 4, 4)
            p.server_sends(sess1.update([rc]))
            ref = Canvas()
            ref.paint(0, 0, 4, 4, rc.paint[0][4], seq[-1])
            got = screen_rgb(p.cl.vnclog) if p.cl.vnclog is not None else None
            if got != ref.rgb():
                ctx.violate("logging-client-format", {"input": {"native": vclient.PF2IM.get(native), "viewer_selects": [vclient.PF2IM.get(x, repr(x)) for x in seq]},
                                                      "observed": "after the switch a 4x4 raw update in the selected format is shown by vnclog's decoder as %r..., the server sent %r..." % (got and got[2][:6].hex(), ref.rgb()[2][:6].hex()),
                                                      "how": "in-memory logging proxy pair: update in the native format, SetPixelFormat from the viewer, update in the new format"})
        if vl.image_mode != want:
            ctx.violate("logging-client-format", {"input": {"native": vclient.PF2IM.get(native), "viewer_selects": [vclient.PF2IM.get(x, repr(x)) for x in seq]},
                                                  "observed": "vnclog's decoder has image mode %r; the format in force maps to %r" % (vl.image_mode, want),
                                                  "how": "in-memory logging proxy pair; SetPixelFormat messages from the viewer"})


def run(ctx):
    r = ctx.rng
    n = ctx.n(500, 8000)
    lines, meta = [], []
    for si in range(n):
        kind = r.choice(["lib", "cli"])
        ver = r.choice([(3, 3), (3, 7), (3, 8), (3, 889), (4, 0), (5, 0), (3, 889)])
        opts = {o: r.random() < .5 for o in ("pseudocursor", "nocursor", "pseudodesktop", "last_rect", "qemu_extended_key")}
        pref = r.choice([0, 0, 1, 2, 4, 5, 16])
        block = gen_block(r)
        banner = b"RFB %03d.%03d\n" % ver
        eff = max(v for v in [(3, 3), (3, 7), (3, 8)] if v <= ver)
        hs = banner + (struct.pack("!I", 1) if eff == (3, 3) else bytes([1, 1]) + (struct.pack("!I", 0) if eff == (3, 8) else b""))
        w, h = 4, 4
        init = struct.pack("!HH", w, h) + block + struct.pack("!I", 0)
        c, trace, zlog = new_client(kind, **opts)
        c.encoding = pref if pref == 0 else rfb.Encoding(pref)
        per = feed_impl(c, trace, [hs, init])
        after = per[1] if len(per) > 1 else []
        native = rfc_pf(block)
        accepted = {pf_tuple(p) for p in vclient.PF2IM}
        rp = {"input": {"kind": kind, "version": list(ver), "options": opts, "preferred": pref, "pf_block": hx(block)},
              "how": "handshake + ServerInit with this PIXEL_FORMAT against the real client; writes after ServerInit and rendered probe pixels"}
        # expected messages
        want = []
        if native in accepted:
            inforce = native
        else:
            inforce = pf_tuple(vclient.BGR16 if ver == (3, 889) else vclient.RGB32)
            want.append("w:" + hx(b"\0\0\0\0" + struct.pack("!BB??HHHBBBxxx", *inforce)))
        encs = [pref] + ([-239] if opts["pseudocursor"] or opts["nocursor"] else []) + ([-223] if opts["pseudodesktop"] else []) + \
               ([-224] if opts["last_rect"] else []) + ([-258] if opts["qemu_extended_key"] else [])
        want.append("w:" + hx(struct.pack("!BxH", 2, len(encs))))
        want += ["w:" + hx(struct.pack("!i", e)) for e in encs]
        want.append("made")
        if after != want:
            ctx.violate("announce", dict(rp, observed="after ServerInit the client did %r, expected %r" % (after, want)))
        if any(e not in DECODABLE for e in encs[1:]) or any(t.startswith("w:") and False for t in after):
            ctx.violate("advertises-undecodable", dict(rp, observed=repr(encs)))
        # probe pixels in the format in force
        chunks = [hs, init]
        if after and after[-1] == "made" and inforce in accepted:
            bypp = (inforce[0] + 7) // 8
            pix = probe_pixels(r, inforce, 40)
            upd = struct.pack("!BxH", 0, 1) + struct.pack("!HHHHi", 0, 0, len(pix), 1, 0) + b"".join(pix)
            per2 = feed_impl(c, trace, [upd])
            chunks.append(upd)
            scr = screen_rgb(c)
            wantpx = b"".join(bytes(rfc_rgb(inforce, p)) for p in pix)
            if scr is None or scr[2] != wantpx:
                i = next((i for i in range(len(pix)) if scr is None or scr[2][3 * i:3 * i + 3] != wantpx[3 * i:3 * i + 3]), 0)
                ctx.violate("channel-mapping", dict(rp, observed="pixel bytes %s in format %r rendered as %r, RFC says %r" % (
                    hx(pix[i]), inforce, scr and tuple(scr[2][3 * i:3 * i + 3]), tuple(wantpx[3 * i:3 * i + 3]))))
            if 16 in encs and (len(meta) % 2 == 0):
                # ... and the same probe pixels, in reverse order, as one raw ZRLE tile: agreement on the pixel format includes
                # agreement on its compressed form (CPIXEL)
                import zlib
                z = zlib.compressobj()
                rev = pix[::-1]
                comp = z.compress(bytes([0]) + b"".join(rfc_cpixel(inforce, q) for q in rev)) + z.flush(zlib.Z_SYNC_FLUSH)
                upd2 = struct.pack("!BxH", 0, 1) + struct.pack("!HHHHi", 0, 0, len(rev), 1, 16) + struct.pack("!I", len(comp)) + comp
                per2 = per2 + feed_impl(c, trace, [upd2])
                chunks.append(upd2)
                scr = screen_rgb(c)
                wantpx = b"".join(bytes(rfc_rgb(inforce, q)) for q in rev)
                ctx.count("zrle_probe_rows")
                if scr is None or scr[2] != wantpx:
                    i = next((i for i in range(len(rev)) if scr is None or scr[2][3 * i:3 * i + 3] != wantpx[3 * i:3 * i + 3]), 0)
                    ctx.violate("channel-mapping-zrle", dict(rp, observed="pixel %s in format %r sent as ZRLE CPIXEL %s rendered as %r, RFC says %r" % (
                        hx(rev[i]), inforce, hx(rfc_cpixel(inforce, rev[i])), scr and tuple(scr[2][3 * i:3 * i + 3]), tuple(wantpx[3 * i:3 * i + 3]))))
        scr = screen_rgb(c)
        stok = "none" if scr is None else "%d %d %d" % (scr[0], scr[1], fnv64(scr[2]))
        ctx.case(dict(rp["input"], after_serverinit=after[:4]) if si < 3 else None, key=(hx(block), ver, tuple(sorted(opts.items())), pref, kind))
        ctx.count("native_accepted" if native in accepted else "native_replaced")
        ctx.count("version_%d.%d" % ver)
        flat = [t for q in per for t in q] + ([t for q in per2 for t in q] if len(chunks) >= 3 else [])
        ml = model_lines(kind, dict(opts, encoding=pref), zlog, chunks) + ["rfb-screen"]
        meta.append((len(lines), len(zlog), len(chunks), flat, stok, rp))
        lines += ml
    cli_options_leg(ctx)
    logging_client_leg(ctx)
    mout = ctx.drive(lines)
    if mout is not None:
        for off, nz, nch, flat, stok, rp in meta:
            mper = parse_model(mout[off:], nz, nch)
            b = [t for q in mper for t in q]
            if until_close(flat) != until_close(b):
                ctx.disagree("model-vs-vncConnectionMade", {"input": rp["input"], "impl": flat[-8:], "model": b[-8:]})
            elif mout[off + nz + 1 + nch] != stok:
                ctx.disagree("model-vs-rendering", {"input": rp["input"], "impl": stok, "model": mout[off + nz + 1 + nch]})
    if ctx.tier == "thorough":
        # all 65536 pixel values of BGR16 through the real Pillow
        c, trace, _ = new_client("lib")
        c.image_mode = vclient.PF2IM[vclient.BGR16]
        data = b"".join(v.to_bytes(2, "little") for v in range(65536))
        c.updateRectangle(0, 0, 256, 256, data)
        got = c.screen.tobytes()
        t = pf_tuple(vclient.BGR16)
        want = b"".join(bytes(rfc_rgb(t, v.to_bytes(2, "little"))) for v in range(65536))
        ctx.evaluations += 65536
        ctx.stats["exhaustive_bgr16_values"] = 65536
        if got != want:
            i = next(i for i in range(65536) if got[3 * i:3 * i + 3] != want[3 * i:3 * i + 3])
            ctx.violate("channel-mapping", {"input": {"format": "BGR16", "value": i}, "observed": "rendered %r, RFC %r" % (tuple(got[3 * i:3 * i + 3]), tuple(want[3 * i:3 * i + 3]))})
