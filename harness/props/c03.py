"""C03 -- Handshake follows RFB 3.3/3.7/3.8 and never proceeds past failed security."""
from __future__ import annotations
from rfbgen import *  # noqa

ID = "C03"
PROOF_MODULES = ["VncProofs.C03", "VncProofs.C14Conv"]
THEOREMS = ["Vnc.C03_version", "Vnc.C03_reply_bytes", "Vnc.C03_banner_step", "Vnc.C03_sectype", "Vnc.C03_sectype_chosen",
            "Vnc.C03_supported_auths", "Vnc.C03_made_only_after_serverinit", "Vnc.C03_clientinit_sources", "Vnc.C03_close_final",
            "Vnc.C03_result", "Vnc.C03_reason", "Vnc.C03_no_password", "Vnc.C03_refused_33", "Vnc.C03_failed_38", "Vnc.C03_none_37",
            "Vnc.C03_none_38", "Vnc.C01_seg_indep", "Vnc.C14_ard_conversation_38"]
TRUSTED = [
    "Lean 4.33 kernel; standard axioms only",
    "SUPPORTED_SERVER_VERSIONS / MAX_CLIENT_VERSION / SUPPORTED_AUTHS are re-extracted from the source on every run (C03_version, C03_supported_auths are re-checked against them)",
    "the handshake states of VncModel/Rfb.lean are tied to rfb.py / client.py / command.py by this correspondence run (reactive and pre-concatenated delivery, three client classes)",
    "DES response and ARD reply are parameters here (their values are property C14); getpass/input prompts are patched to return fixed credentials",
]
ASSUMPTIONS = [
    "the server is reactive: it does not send the SecurityResult before it received the response it is the result of (for the no-password path of the base/library client a server that ignores the close and carries on is answered - C03_close_final names exactly that case; no conforming server does this)",
]
RULE = ("handshakes = banner (all of 3.3..3.8, 3.5, 3.889, 4.x, 5.0, random 000.000-999.999, below 3.3) x security offer (random subsets/orderings of "
        "{0,1,2,5,16,18,19,30,...}, the 3.3 scheme incl. invalid, zero types + reason) x password present/absent x SecurityResult in {0,1,2,3,2^32-1} x reason length "
        "in {0,1,2,255,1000,1025,4097} (corpus: 1023,1024,1025,5000,70000 after a failed result and in a refusal) x client class (base, library, CLI), delivered reactively (one server message per chunk) and pre-concatenated; "
        "non-trivial = distinct handshake that gets past the version exchange")


def rfc_transcript(kind, pw, p):
    """RFC 6143 7.1: the client's side of the conversation as (server messages, expected tokens after each)."""
    ver = p["ver"]
    steps = []  # (server bytes, expected tokens)
    banner = b"RFB %03d.%03d\n" % ver
    if ver < (3, 3):
        return [(banner, ["raise:value"])], "dropped"
    eff = max(v for v in [(3, 3), (3, 7), (3, 8)] if v <= ver)
    steps.append((banner, ["w:" + hx(b"RFB %03d.%03d\n" % eff)]))
    shared = "w:01"

    def after_init():
        steps.append((p["serverinit"], None))   # SetPixelFormat?/SetEncodings/made: checked by C13; here: `made` must appear
        return "established"

    def vnc_auth(report_reason):
        chal = p["challenge"]
        if pw is None and kind != "cli":
            steps.append((chal, ["close"] + (["connfailed"] if kind == "lib" else [])))
            return "failed"
        resp = des_response(pw if pw is not None else PROMPT_PW, chal)
        steps.append((chal, ["w:" + hx(resp)]))
        return result(report_reason)

    def result(report_reason):
        res = p["result"]
        rb = struct.pack("!I", res)
        if res == 0:
            steps.append((rb, [shared]))
            return after_init()
        if res in (1, 2):
            if report_reason:
                steps.append((rb, []))
                reason = p["reason"]
                steps.append((struct.pack("!I", len(reason)), []))
                if reason:
                    steps.append((reason, ["authfail:" + hx(reason), "close"]))
                else:
                    steps[-1] = (steps[-1][0], ["authfail:-", "close"])
            else:
                msg = b"authentication failed" if res == 1 else b"too many tries to log in"
                steps.append((rb, ["authfail:" + hx(msg), "close"]))
            return "failed"
        steps.append((rb, ["close"]))
        return "failed"

    def refused():
        reason = p["reason"]
        steps.append((struct.pack("!I", len(reason)), []))
        if reason:
            steps.append((reason, ["close"]))
        else:
            steps[-1] = (steps[-1][0], ["close"])
        return "failed"

    if eff == (3, 3):
        sch = p["scheme"]
        if sch == 0:
            steps.append((struct.pack("!I", 0), []))
            return steps, refused()
        if sch == 1:
            steps.append((struct.pack("!I", 1), [shared]))
            return steps, after_init()
        if sch == 2:
            steps.append((struct.pack("!I", 2), []))
            return steps, vnc_auth(False)
        steps.append((struct.pack("!I", sch), ["close"]))
        return steps, "failed"
    offer = p["offer"]
    steps.append((bytes([len(offer)]), []))
    if not offer:
        return steps, refused()
    ok = [t for t in offer if t in (1, 2, 30)]
    if not ok:
        steps.append((bytes(offer), ["close"]))
        return steps, "failed"
    t = max(ok)
    if t == 1:
        if eff == (3, 7):
            steps.append((bytes(offer), ["w:01", shared]))
            return steps, after_init()
        steps.append((bytes(offer), ["w:01"]))
        return steps, result(True)
    if t == 2:
        steps.append((bytes(offer), ["w:02"]))
        return steps, vnc_auth(eff == (3, 8))
    # Diffie-Hellman (Apple Remote Desktop)
    steps.append((bytes(offer), ["w:1e"]))
    L = p["keylen"]
    steps.append((struct.pack("!HH", p["gen"], L), []))
    steps.append((p["modulus"], []))
    steps.append((p["serverkey"], ["w:" + hx(ARD_TOKEN)]))
    return steps, result(eff == (3, 8))


def gen_params(r):
    k = r.random()
    if k < .5:
        ver = r.choice([(3, 3), (3, 5), (3, 7), (3, 8), (3, 889), (4, 0), (4, 1), (5, 0), (3, 6), (3, 9)])
    elif k < .6:
        ver = r.choice([(3, 2), (0, 0), (2, 999), (3, 0), (1, 8)])
    else:
        ver = (r.randrange(1000), r.randrange(1000))
    pool = [0, 1, 2, 5, 16, 18, 19, 30, 22, 129, 255]
    j = r.random()
    if j < .1:
        offer = []
    elif j < .5:
        offer = [r.choice([1, 2, 30])] + r.sample(pool, r.randint(0, 3))
        r.shuffle(offer)
    else:
        offer = r.sample(pool, r.randint(1, 5))
    L = r.choice([1, 2, 8, 16])
    mod = r.getrandbits(8 * L) | 1 | (1 << (8 * L - 1))
    native = r.choice(ACCEPTED_PF) if r.random() < .7 else r.choice(ODD_PF)
    return {"ver": ver, "scheme": r.choice([0, 1, 1, 2, 2, 3, 30, 0xFFFFFFFF, 256, 257, 258, 0x101, 0x10002, 0x1000001, 0x80000002]), "offer": offer,
            "challenge": bytes(r.randrange(256) for _ in range(16)), "result": r.choice([0, 0, 0, 1, 2, 3, 0xFFFFFFFF]),
            "reason": bytes(r.randrange(256) for _ in range(r.choice([0, 0, 1, 2, 255, 1000, 1025, 4097]))),
            "gen": r.choice([2, 5]), "keylen": L, "modulus": mod.to_bytes(L, "big"), "serverkey": r.getrandbits(8 * L - 1).to_bytes(L, "big"),
            "serverinit": server_init(r.choice([1, 640]), r.choice([1, 480]), native, bytes(r.randrange(32, 127) for _ in range(r.choice([0, 1, 9]))))}


class _Rx:
    """a reactor that only records (api.connect must not start a thread here)"""
    running = True

    def callWhenRunning(self, f, *a, **k):
        pass

    def callFromThread(self, f, *a, **k):
        pass


def api_leg(ctx):
    """credentials are per connection: an API client created WITHOUT a password has none, whatever earlier connections used;
    a server that then asks for VNC authentication gets no response and the connection is closed"""
    from unittest import mock
    from vncdotool import api
    r = ctx.rng
    with use_reactor(_Rx()):
        for i in range(ctx.n(6, 40)):
            pw = "".join(chr(r.randrange(33, 127)) for _ in range(r.randint(1, 9)))
            first = api.connect("host%d" % i, password=pw, username=r.choice([None, "user"]))
            second = api.connect("other%d" % i)
            ver = r.choice([b"RFB 003.003\n", b"RFB 003.007\n", b"RFB 003.008\n"])
            chal = bytes(r.randrange(256) for _ in range(16))
            p = second.factory.buildProtocol(None)
            tr = []
            p.transport = FakeTransport(tr)
            errs = []
            second.factory.deferred.addErrback(lambda f: errs.append(f) and None)
            p.connectionMade()
            stream = ver + (struct.pack("!I", 2) if ver.endswith(b"003\n") else bytes([1, 2])) + chal
            exc = None
            try:
                with Budget(5):
                    p.dataReceived(stream)
            except BaseException as e:  # noqa
                exc = exc_class(e)
            ws = [t[1] for t in tr if t[0] == "write"]
            ctx.count("api_passwordless_after_password")
            ctx.case(None, key=("api", i))
            responded = any(len(w_) == 16 for w_ in ws)
            if responded or not p.transport.closed or exc:
                ctx.violate("no-password-proceeds", {"input": {"earlier_connection_password": pw, "this_connection": "api.connect(server) without password", "banner": ver.decode().strip(), "challenge": hx(chal)},
                                                     "observed": "wrote %r, closed=%s, raised=%s" % ([hx(w_) for w_ in ws[1:]], p.transport.closed, exc),
                                                     "how": "vncdotool.api.connect twice (reactor replaced by a recorder), then the second client's protocol against a server that asks for VNC authentication"})


def cli_no_tty_leg(ctx):
    """the command-line client without --password asks on the terminal; when there is no terminal to ask (getpass fails) there is
    no password: no response goes out and the session is never reported as established, whatever the server says next"""
    import getpass as gp
    from unittest import mock
    r = ctx.rng
    for i in range(ctx.n(9, 60)):
        ver = [b"RFB 003.003\n", b"RFB 003.007\n", b"RFB 003.008\n"][i % 3]
        exc = [EOFError, OSError][i % 2]
        chal = bytes(r.randrange(256) for _ in range(16))

        def fail(prompt="", exc=exc):
            raise exc("no terminal")
        c, trace, zlog = new_client("cli")
        with hook("getpass", fail):
            stream = ver + (struct.pack("!I", 2) if ver.endswith(b"003\n") else bytes([1, 2])) + chal
            per = feed_impl(c, trace, [stream, struct.pack("!I", 0), server_init(4, 4, vclient.RGB32, b"x")])
        flat = [t for q in per for t in q]
        ctx.count("cli_no_terminal_sessions")
        ctx.case(None, key=("cli-no-tty", i))
        if any(t.startswith("w:") and len(t) == 2 + 32 for t in flat) or "made" in flat:
            ctx.violate("no-password-proceeds", {"input": {"client": "VNCDoCLIClient without --password", "getpass": exc.__name__, "banner": ver.decode().strip(), "challenge": hx(chal)},
                                                 "observed": "trace %r" % flat[-5:],
                                                 "how": "command-line client on an in-memory transport with getpass failing; the server asks for VNC authentication, then accepts whatever it gets"})


def run(ctx):
    api_leg(ctx)
    cli_no_tty_leg(ctx)
    r = ctx.rng
    n = ctx.n(700, 20000)
    lines_all, meta = [], []
    cases = []
    for i in range(n):
        kind = r.choice(["base", "lib", "cli"])
        pw = None if r.random() < .35 else "".join(chr(r.randrange(32, 127)) for _ in range(r.randint(0, 12)))
        if i % 9 == 4:
            pw = ""           # an explicitly given EMPTY password is a password (nobody is to be asked for another one)
        cases.append((kind, pw, gen_params(r)))
    # corpus (always run): VNC authentication under each negotiable version x each SecurityResult code x each client class
    for cver in ((3, 3), (3, 7), (3, 8), (3, 889)):
        for cres in (0, 1, 2, 3):
            for ckind in ("base", "lib", "cli"):
                p_ = gen_params(r)
                p_.update(ver=cver, offer=[2], scheme=2, result=cres)
                cases.append((ckind, "secret", p_))
    # corpus: "a reason of ANY length" - failures and refusals whose reason is a kilobyte and more (seeded C03ac: a cap at 1024)
    for ci, rl in enumerate((1023, 1024, 1025, 5000, 70000)):
        for cres, coffer, cver in ((1, [2], (3, 8)), (2, [2], (3, 8)), (0, [], (3, 7)), (0, [], (3, 8))):
            p_ = gen_params(r)
            p_.update(ver=cver, offer=coffer, scheme=2, result=cres, reason=bytes(r.randrange(256) for _ in range(rl)))
            cases.append((("base", "lib", "cli")[ci % 3], "secret", p_))
            ctx.count("corpus_long_reasons")
    if ctx.tier == "thorough":
        # all 10^6 numeric banners through the real _handleInitial (exhaustive): reply = highest of 3.3/3.7/3.8 <= banner
        bad = 0
        for maj in range(1000):
            for mn in range(1000):
                c, trace, _ = new_client("base")
                try:
                    c.dataReceived(b"RFB %03d.%03d\n" % (maj, mn))
                    got = toks(trace)
                except ValueError:
                    got = ["raise:value"]
                want = ["raise:value"] if (maj, mn) < (3, 3) else ["w:" + hx(b"RFB %03d.%03d\n" % max(v for v in [(3, 3), (3, 7), (3, 8)] if v <= (maj, mn)))]
                if got != want and bad < 5:
                    bad += 1
                    ctx.violate("version-reply", {"input": {"banner": "RFB %03d.%03d" % (maj, mn)}, "impl": got, "spec": want})
        ctx.evaluations += 10 ** 6
        ctx.stats["exhaustive_banners"] = 10 ** 6
        ctx.exhaustive = True
    for kind, pw, p in cases:
        opts = {} if pw is None else {"password": pw}
        steps, outcome = rfc_transcript(kind, pw, p)
        ctx.count("outcome_" + outcome)
        ctx.count("kind_" + kind)
        for delivery in ("reactive", "glued"):
            chunks = [s[0] for s in steps if s[0]]
            if delivery == "glued":
                chunks = [b"".join(chunks)]
            fmode = ("standin", "instance", "class")[(len(meta) // 2) % 3]
            ctx.count("factory_" + fmode)
            c, trace, zlog = new_client(kind, factory=fmode, **opts)
            c.factory.username = "user" if (sum(len(x) for x in chunks) + len(chunks)) % 3 else None      # None: the user name is prompted for (ARD only)
            per = feed_impl(c, trace, chunks)
            flat = [t for q in per for t in q]
            rp = {"input": {"kind": kind, "password": pw, "factory": {"standin": "plain object with the option attributes", "instance": "VNCDoToolFactory subclass, options set on the instance", "class": "VNCDoToolFactory subclass, options as class attributes"}[fmode], "delivery": delivery, "banner": list(p["ver"]), "offer": p["offer"], "scheme": p["scheme"],
                            "result": p["result"], "reason_len": len(p["reason"]), "server_messages": [hx(s[0]) for s in steps]},
                  "how": "scripted server following RFC 6143 7.1 against the real %s on an in-memory transport" % kind}
            # the property
            want = []
            established = False
            for sb, exp in steps:
                if exp is None:
                    established = True
                else:
                    want += exp
            got_hs = flat if not established else flat[:len(want)]
            if until_close(got_hs) != until_close(want):
                ctx.violate("handshake-transcript", dict(rp, observed="client did %r, RFC prescribes %r" % (until_close(got_hs)[-4:], until_close(want)[-4:])))
            made = flat.count("made")
            if established and made != 1:
                ctx.violate("handshake-success", dict(rp, observed="security succeeded and ServerInit arrived but the connection was reported established %d times" % made))
            if not established and made:
                ctx.violate("success-after-failure", dict(rp, observed="connection reported established although security did not succeed: %r" % flat[-5:]))
            if outcome == "failed" and "close" not in flat:
                ctx.violate("failure-not-closed", dict(rp, observed="security failed but the client did not close: %r" % flat[-4:]))
            ctx.case({"kind": kind, "banner": list(p["ver"]), "offer": p["offer"], "outcome": outcome, "trace": flat[:8]} if len(ctx.samples) < 3 and len(flat) > 3 else None,
                     key=(kind, pw, repr(sorted(p.items())), delivery) if len(flat) > 1 else None)
            meta.append((len(lines_all), len(zlog), len(chunks), flat, rp))
            lines_all += model_lines(kind, opts, zlog, chunks, auth_response_of(c, kind, opts))
            if delivery == "reactive":
                first_factory = c.factory
        # a second connection made by the SAME factory (reconnect, a second protocol instance): the handshake is the same
        c2, trace2, _ = new_client(kind, **opts)
        c2.factory = first_factory
        first_factory.events = trace2
        flat2 = [t for q in feed_impl(c2, trace2, [s[0] for s in steps if s[0]]) for t in q]
        ctx.count("second_connection_of_a_factory")
        got2 = flat2 if not established else flat2[:len(want)]
        if until_close(got2) != until_close(want):
            ctx.violate("handshake-second-connection", dict(rp, input=dict(rp["input"], delivery="reactive", connection="the second one made by the same factory object (the first one ran the same conversation)"),
                                                            observed="client did %r, RFC prescribes %r" % (until_close(got2)[-4:], until_close(want)[-4:])))
    mout = ctx.drive(lines_all)
    if mout is not None:
        for off, nz, nch, flat, rp in meta:
            mper = parse_model(mout[off:], nz, nch)
            a = until_close(flat)
            b = until_close([t for q in mper for t in q])
            if a != b:
                k = next((i for i, (x, y) in enumerate(zip(a, b)) if x != y), min(len(a), len(b)))
                ctx.disagree("model-vs-handshake", {"input": rp["input"], "impl": a[max(0, k - 2):k + 3], "model": b[max(0, k - 2):k + 3], "at": k})
