"""C06 -- A screen capture is a complete, current, whole-desktop snapshot."""
from __future__ import annotations
from appsession import *  # noqa

ID = "C06"
PROOF_MODULES = ["VncProofs.C06", "VncProofs.C02", "VncProofs.System", "VncProofs.C14Conv", "VncProofs.C07Sys", "VncProofs.C06Sys"]
THEOREMS = ["Vnc.C06_request_geometry", "Vnc.C06_region_request", "Vnc.C06_no_save_on_start", "Vnc.C06_commit_ends_update", "Vnc.C06_saved_is_screen",
            "Vnc.C06_pixels_are_screen", "Vnc.C06_commit_without_waiter", "Vnc.C06_capture_waits_for_pixels", "Vnc.C02_desktop_geometry", "Vnc.C01_seg_indep",
            "Vnc.sys_progress", "Vnc.Sys_seg_indep", "Vnc.Sys_chunkings", "Vnc.Sys_rechunk", "Vnc.sys_feed_rfb", "Vnc.C06_sys_saves_follow_commit",
            "Vnc.C06_sys_save_is_screen", "Vnc.sys_screen_is_painter", "Vnc.C06_capture_over_two_updates", "Vnc.sys_update_app", "Vnc.C06_sys_capture_update", "Vnc.C06_sys_requests_current", "Vnc.C06_sys_geometry_invariant"]
TRUSTED = [
    'VncSpec/Requests.lean requestsCurrent (the checker C06_sys_requests_current is about) is evaluated by the driver on every history observed on the real vncdo',
    "Lean 4.33 kernel; standard axioms only",
    "Twisted's Deferred (self.deferred fired by commitUpdate, chaining of the script on it) is abstracted by the waiter / chain model of VncModel/Client.lean; validated by the correspondence run against the real vncdo, not proved",
    "PNG encoding and the file system are Pillow / the OS: the harness decodes the written file and compares pixels",
]
ASSUMPTIONS = ["liveness is conditional: an update without a position-bearing rectangle does not call commitUpdate, so the capture keeps waiting for the next one (consistent with 'completes only after an update ... has been applied in full')",
               "a capture issued while an update is half decoded completes at that update's commit: the image is never half-applied, but that update began before the request (counted: captures_issued_mid_update)"]
RULE = ("scripts of captures / region captures mixed with pauses and other commands; server updates of 1..3 rectangles in Raw/RRE/CoRRE/Hextile/ZRLE, DesktopSize changes before and between "
        "captures, unsolicited and empty updates, updates split into chunks with timers firing in between (captures issued mid-update), the connection going down half way through an update; non-trivial = distinct session with >= 1 completed capture")


def ref_crop(ref, box):
    w, h, data = ref
    x0, y0, x1, y1 = box
    out = bytearray()
    for y in range(y0, y1):
        for x in range(x0, x1):
            out += data[3 * (y * w + x):3 * (y * w + x) + 3] if 0 <= x < w and 0 <= y < h else b"\0\0\0"
    return (x1 - x0, y1 - y0, bytes(out))


def oracle(spec, res, size0):
    cmds = getattr(spec, "cmdtoks", None) or cmd_tokens(spec.words, {}, spec.delay)
    tl = [t for e in res["events"] for t in e[1]]
    geom = size0
    ref = Canvas()
    upd_i = 0
    positional = [u for u in spec.updates if any(rc.kind != "qemu" for rc in u)]
    in_update = False
    pending = {}      # cmd index -> ("capture", file, box, geom_at_request)
    saves = 0
    i = 0
    n_mid = 0
    while i < len(tl):
        t = tl[i]
        if t == "begin":
            in_update = True
        elif t.startswith("desktop:"):
            geom = tuple(int(x) for x in t.split(":")[1:3])
        elif t.startswith("commit:"):
            in_update = False
            if upd_i < len(positional):
                for rc in positional[upd_i]:
                    if rc.kind == "desktop":
                        ref.resize(rc.w, rc.h)
                    for (x, y, w, h, px) in rc.paint:
                        ref.paint(x, y, w, h, px, spec.pf)
                upd_i += 1
            if ref.rgb() is None and pending:
                # the completed update carried no pixel data (a cursor shape only): there is no screen to save yet; the capture
                # keeps waiting and asks again for the whole desktop
                for ci in sorted(pending):
                    nxt = tl[i + 1] if i + 1 < len(tl) else None
                    want = "w:" + struct.pack("!BBHHHH", 3, 0, 0, 0, geom[0], geom[1]).hex()
                    if nxt != want:
                        return "capture (command %d): after an update without pixel data the client did %r, expected another full request %r" % (ci, nxt, want), n_mid
                    i += 1
                i += 1
                continue
            # every pending capture must save right now, exactly once, the screen as it is now
            for ci, (f, box) in sorted(pending.items()):
                nxt = tl[i + 1] if i + 1 < len(tl) else None
                want_img = ref.rgb()
                if want_img is None:
                    continue
                if box:
                    want_img = ref_crop(want_img, box)
                want = "save:%s:%d:%d:%d" % (f.encode().hex(), want_img[0], want_img[1], fnv64(want_img[2]))
                if nxt != want:
                    return "capture (command %d): right after the commit the client did %r, expected %r" % (ci, nxt, want), n_mid
                saves += 1
                i += 1
            pending = {}
        elif t.startswith("save:"):
            if in_update:
                return "an image was saved in the middle of an update (%s)" % t[:40], n_mid
            return "an image was saved without a completed update after the request (%s)" % t[:40], n_mid
        elif t.startswith("start:"):
            ci = int(t[6:])
            c = cmds[ci].split(":")
            if c[0] in ("captureScreen", "captureRegion"):
                f = bytes.fromhex(c[1]).decode()
                inc = spec.incremental if c[0] == "captureScreen" else False
                want = "w:" + struct.pack("!BBHHHH", 3, inc, 0, 0, geom[0], geom[1]).hex()
                nxt = tl[i + 1] if i + 1 < len(tl) else None
                if nxt != want:
                    return "capture (command %d) requested %r, the desktop announced is %dx%d (%r)" % (ci, nxt, geom[0], geom[1], want), n_mid
                box = None
                if c[0] == "captureRegion":
                    x, y, w, h = (int(v) for v in c[2:6])
                    box = (x, y, x + w, y + h)
                pending[ci] = (f, box)
                if in_update:
                    n_mid += 1
        i += 1
    return None, n_mid


def vmware_leg(ctx):
    """the VMware client variant: its workaround drops a chunk that is exactly a 1x1 raw update of the top-left pixel and asks
    again - for the WHOLE desktop, non-incrementally - so that a capture waiting at that moment still gets a complete,
    current snapshot"""
    import io
    from rfbgen import new_client, feed_impl, server_init, Session, enc_raw, Canvas, screen_rgb
    r = ctx.rng
    for si in range(ctx.n(6, 60)):
        pf = vclient.RGB32
        w, h = r.choice([4, 9]), r.choice([3, 6])
        c, trace, _ = new_client("vmware")
        feed_impl(c, trace, [b"RFB 003.008\n" + bytes([1, 1]) + struct.pack("!I", 0) + server_init(w, h, pf, b"v")])
        sess = Session(pf)
        ref = Canvas()
        first = enc_raw(r, pf, 0, 0, w, h)
        feed_impl(c, trace, [sess.update([first])])
        ref.paint(0, 0, w, h, first.paint[0][4], pf)
        out, done = io.BytesIO(), []
        c.captureScreen(out, format="png").addBoth(done.append)
        n0 = len(trace)
        one = enc_raw(r, pf, 0, 0, 1, 1)
        feed_impl(c, trace, [sess.update([one])])          # exactly the workaround's 20-byte chunk
        ws = [t[2:] for t in toks(trace[n0:]) if t.startswith("w:")]
        want = struct.pack("!BBHHHH", 3, 0, 0, 0, w, h).hex()
        ctx.count("vmware_capture_sessions")
        ctx.case(None, key=("vmware", si))
        rp = {"input": {"client": "VMWareClient", "desktop": [w, h], "sequence": "full update, captureScreen, 1x1 raw update of (0,0) as one 20-byte chunk, full update"},
              "how": "VMWareClient on an in-memory transport; the request sent in answer to the dropped chunk, then the saved image"}
        if done or ws != [want]:
            ctx.violate("capture-vmware", dict(rp, observed="after the dropped chunk the client wrote %r (expected one full request %s); capture finished early: %s" % (ws, want, bool(done))))
            continue
        second = enc_raw(r, pf, 0, 0, w, h)
        feed_impl(c, trace, [sess.update([second])])
        ref.paint(0, 0, w, h, second.paint[0][4], pf)
        from PIL import Image
        if not done:
            ctx.violate("capture-vmware", dict(rp, observed="the capture did not complete at the next full update"))
            continue
        out.seek(0)
        im = Image.open(out).convert("RGB")
        if (im.size[0], im.size[1], im.tobytes()) != ref.rgb():
            ctx.violate("capture-vmware", dict(rp, observed="the saved image is not the server's current framebuffer"))


req_lines = []


def run(ctx):
    vmware_leg(ctx)
    r = ctx.rng
    n = ctx.n(220, 1500)
    lines, checks = [], []
    with Workdir():
        for si in range(n):
            spec = build_session(r, kinds=["capture", "capture", "rcapture", "pause", "pause", "key", "move"], ncmd=r.randint(1, 6))
            if si % 7 == 3:
                # the first completed update after the first capture request carries no pixel data (a cursor shape, as servers send
                # right after SetEncodings): the capture - region captures included - keeps waiting for pixels
                spec = build_session(r, kinds=["rcapture", "capture", "rcapture", "key"], ncmd=r.randint(1, 3))
                spec.words = r.choice([["rcapture", "first.png", "1", "1", "4", "3"], ["capture", "first.png"]]) + spec.words
                spec.delay = 0
                spec.nocursor = True
                spec.first_update_cursor_only = True
                ctx.count("sessions_first_update_cursor_only")
            spec.resizes = True
            spec.midfire = True
            spec.unsolicited = 0.5
            spec.midloss = 0.12          # the connection may go down in the middle of an update, with a capture waiting
            size0 = spec.size
            res = drive(r, spec)
            inp = {"words": spec.words, "delay": spec.delay, "warp": spec.warp, "incremental": spec.incremental, "size": list(size0),
                   "events": [(e[0], hx(e[1]) if e[0] == "recv" else "") for e in spec.events][:60]}
            rp = {"input": inp, "how": "the real vncdo() with a virtual clock; saved PNG files are decoded and compared with the reference canvas at the commit that completes the capture"}
            tl = [t for e in res["events"] for t in e[1]]
            ncap = sum(1 for t in tl if t.startswith("save:"))
            ctx.case({"words": spec.words, "captures_completed": ncap, "trace": [t[:50] for t in tl if not t.startswith("w:05")][9:22]} if len(ctx.samples) < 3 and ncap else None,
                     key=si if ncap else None)
            ctx.count("captures_completed", ncap)
            if any(e[0].startswith("lose") for e in res["events"]) and "close" not in tl:
                ctx.count("sessions_losing_the_connection_early")
            ctx.count("sessions_with_resize" if any(t.startswith("desktop:") for t in tl) else "sessions_without_resize")
            if res["error"] or not res["connects"]:
                ctx.violate("vncdo-rejects-valid-script", dict(rp, observed="vncdo() ended with %r" % (res["error"],)))
                continue
            bad, n_mid = oracle(spec, res, size0)
            if "made" in tl:
                # the history after the session is established, judged by the checker C06_sys_requests_current is about
                toks_ = []
                for t in tl[tl.index("made") + 1:]:
                    if t.startswith("desktop:"): toks_.append("d%sx%s" % tuple(t.split(":")[1:3]))
                    elif t.startswith("w:") and len(t) > 2: toks_.append("q" + t[2:])
                    elif t.startswith("commit"): toks_.append("c")
                req_lines.append(("reqcur %d %d %s" % (size0[0], size0[1], " ".join(toks_)), rp, bool(bad)))
            ctx.count("captures_issued_mid_update", n_mid)
            if bad:
                ctx.violate("capture", dict(rp, observed=bad))
            elif res.get("stalled"):
                ctx.violate("capture-never-completes", dict(rp, observed="a capture is outstanding, the connection is up, yet nobody waits for the next update any more: the capture can never complete"))
            ml, chk = compare_with_model(ctx, spec, res, "model-vs-vncdo", inp)
            if chk:
                checks.append((len(lines), len(ml), chk))
                lines += ml
    mout = ctx.drive(lines)
    if mout is not None:
        for off, k, chk in checks:
            chk(mout[off:off + k])
    rout = ctx.drive([l for l, _, _ in req_lines])
    if rout is not None:
        for (l, rp, pybad), o in zip(req_lines, rout):
            ctx.count("histories_judged_by_the_lean_request_checker")
            if o == "ok false" and not pybad:
                ctx.violate("capture", dict(rp, observed="an update request in the history does not ask for the whole desktop as announced last before it (VncSpec/Requests.lean requestsCurrent): %s" % l[:300]))
