"""C11 -- The synchronous API runs calls in order and gives each call its own outcome."""
from __future__ import annotations
import socket, struct, threading, time
from core import *  # noqa
from vncdotool import api, client as vclient
from twisted.internet import reactor
from twisted.internet.defer import Deferred

ID = "C11"
PROOF_MODULES = ["VncProofs.C11"]
THEOREMS = ["Vnc.Api.C11_init", "Vnc.Api.C11_step", "Vnc.Api.C11_inv", "Vnc.Api.C11_linear", "Vnc.Api.C11_connect_failure_all_raise",
            "Vnc.Api.C11_error_isolated", "Vnc.Api.C11_independent", "Vnc.Api.C11_progress"]
TRUSTED = [
    "Lean 4.33 kernel; standard axioms only",
    "the LTS of VncModel/Api.lean quantifies over all interleavings of ITS atomic steps; OS thread scheduling, the GIL, queue.Queue, reactor.callFromThread (FIFO) and Twisted's Deferred (callbacks run in order, a returned Deferred pauses the chain, maybeDeferred turns exceptions into failures) are trusted and exercised, not proved",
    "correspondence: the real api module with the real reactor thread, loopback RFB servers and a probe client class (fast / slow / failing / asynchronously failing / None-returning operations); observed (call, returned or raised) sequences are compared with the model's run for the same schedule",
]
ASSUMPTIONS = ["no call times out (excluded by the property); one application thread per client"]
RULE = ("sequences of 3..12 calls per client over {fast, slow (callLater), failing, asynchronously failing, None-returning, server-identifying} operations, "
        "issued before or after the connection is established, one client or two clients driven concurrently from two threads against two servers, "
        "and clients whose connection cannot be established (TCP connection refused, a host name that does not resolve, or a server that insists on VNC authentication while no password was given); non-trivial = distinct call sequence containing a failing or None-returning call followed by another call")


class Server(threading.Thread):
    """minimal RFB 3.3 server on a loopback port: handshake, ServerInit with its own name, then swallows everything"""

    def __init__(self, name):
        super().__init__(daemon=True)
        # the desktop name is bytes on the wire, in no particular encoding (RFC 6143 7.3.2): one server's name is not valid UTF-8
        self.wire_name = name if isinstance(name, bytes) else name.encode()
        self.name_ = self.wire_name.decode("latin-1")
        self.sock = socket.socket()
        self.sock.bind(("127.0.0.1", 0))
        self.sock.listen(8)
        self.port = self.sock.getsockname()[1]
        self.stop = False
        self.delay = 0.0
        self.auth = False

    def run(self):
        self.sock.settimeout(0.2)
        while not self.stop:
            try:
                conn, _ = self.sock.accept()
            except socket.timeout:
                continue
            except OSError:
                return
            threading.Thread(target=self.serve, args=(conn,), daemon=True).start()

    def serve(self, conn):
        try:
            conn.settimeout(5)
            time.sleep(self.delay)
            if self.auth:
                # a server that insists on VNC authentication (RFB 3.8): the password-less client cannot establish the session
                conn.sendall(b"RFB 003.008\n")
                buf = b""
                while len(buf) < 12:
                    buf += conn.recv(64)
                conn.sendall(bytes([1, 2]))
                conn.recv(1)
                conn.sendall(bytes(range(16)))
                conn.settimeout(2)
                try:
                    conn.recv(64)
                except socket.timeout:
                    pass
                return
            conn.sendall(b"RFB 003.003\n")
            buf = b""
            while len(buf) < 12:
                buf += conn.recv(64)
            conn.sendall(struct.pack("!I", 1))
            conn.recv(1)
            nm = self.wire_name
            conn.sendall(struct.pack("!HH", 4, 4) + vclient.RGB32.to_bytes() + struct.pack("!I", len(nm)) + nm)
            conn.settimeout(0.5)
            while not self.stop:
                try:
                    if not conn.recv(4096):
                        break
                except socket.timeout:
                    continue
        except Exception:  # noqa
            pass
        finally:
            conn.close()


class UpdateServer(threading.Thread):
    """RFB 3.3 server that answers every FramebufferUpdateRequest, after a delay, with a 1x1 raw update, and logs when"""

    def __init__(self, delay=0.15, first_reply_cursor_only=False):
        super().__init__(daemon=True)
        self.first_reply_cursor_only = first_reply_cursor_only
        self.sock = socket.socket()
        self.sock.bind(("127.0.0.1", 0))
        self.sock.listen(2)
        self.port = self.sock.getsockname()[1]
        self.delay = delay
        self.events = []          # ("request", k) / ("reply", k), shared with the application thread's ("returned", k)
        self.lock = threading.Lock()

    def note(self, *ev):
        with self.lock:
            self.events.append(ev)

    def run(self):
        try:
            self.sock.settimeout(10)
            conn, _ = self.sock.accept()
            conn.settimeout(10)
            conn.sendall(b"RFB 003.003\n")
            buf = b""
            while len(buf) < 12:
                buf += conn.recv(64)
            buf = buf[12:]
            conn.sendall(struct.pack("!I", 1))
            while len(buf) < 1:
                buf += conn.recv(64)
            buf = buf[1:]
            conn.sendall(struct.pack("!HH", 2, 2) + vclient.RGB32.to_bytes() + struct.pack("!I", 1) + b"u")
            k = 0
            sizes = {0: 20, 3: 10, 4: 8, 5: 6}
            while True:
                while not buf:
                    d = conn.recv(4096)
                    if not d:
                        return
                    buf += d
                t = buf[0]
                if t == 2:
                    while len(buf) < 4:
                        buf += conn.recv(4096)
                    n = 4 + 4 * struct.unpack("!H", buf[2:4])[0]
                else:
                    n = sizes.get(t, 1)
                while len(buf) < n:
                    buf += conn.recv(4096)
                msg, buf = buf[:n], buf[n:]
                if t == 3:
                    self.note("request", k)
                    time.sleep(self.delay)
                    self.note("reply", k)
                    if k == 0 and self.first_reply_cursor_only:
                        # an update that carries only a cursor shape (1x1): no pixel data
                        conn.sendall(struct.pack("!BxH", 0, 1) + struct.pack("!HHHHi", 0, 0, 1, 1, -239) + bytes(4) + bytes(1))
                    else:
                        conn.sendall(struct.pack("!BxH", 0, 1) + struct.pack("!HHHHi", 0, 0, 2, 2, 0) + bytes([k & 255, 0, 0, 0] * 4))
                    k += 1
        except Exception:  # noqa
            pass
        finally:
            self.sock.close()


def real_operation_leg(ctx):
    """a real operation that finishes asynchronously: refreshScreen returns only after the server's reply to ITS request"""
    r = ctx.rng
    for si in range(ctx.n(2, 10)):
        srv = UpdateServer(delay=r.choice([0.1, 0.2]))
        srv.start()
        cl = api.connect("127.0.0.1::%d" % srv.port, timeout=8)
        flags = [False] + [r.random() < .7 for _ in range(r.randint(2, 4))]
        err = None
        try:
            for k, inc in enumerate(flags):
                cl.refreshScreen(incremental=inc)
                srv.note("returned", k)
        except Exception as e:  # noqa
            err = "%s: %s" % (type(e).__name__, e)
        try:
            cl.disconnect()
        except Exception:  # noqa
            pass
        with srv.lock:
            evs = list(srv.events)
        ctx.count("real_refresh_sessions")
        ctx.case(None, key=("refresh", si))
        bad = err
        if not bad:
            for k in range(len(flags)):
                if ("reply", k) not in evs or ("returned", k) not in evs or evs.index(("returned", k)) < evs.index(("reply", k)):
                    bad = "call %d (incremental=%s) returned before the server had answered its request" % (k, flags[k])
                    break
        if bad:
            ctx.violate("returns-before-completion", {"input": {"calls": ["refreshScreen(incremental=%s)" % f for f in flags], "server_reply_delay": srv.delay},
                                                      "observed": "%s; order of events %r" % (bad, evs[:12]),
                                                      "how": "vncdotool.api against a loopback RFB server that answers each update request after a delay; server and application thread log into one list"})


def real_capture_leg(ctx):
    """captureScreen through the API returns only when the image has been written - also when the first completed update
    carried no pixel data and the capture had to wait for a second one"""
    import io, os, tempfile
    for si, cursor_first in enumerate([True, False] * ctx.n(1, 4)):
        srv = UpdateServer(delay=0.1, first_reply_cursor_only=cursor_first)
        srv.start()
        cl = api.connect("127.0.0.1::%d" % srv.port, timeout=8)
        path = os.path.join(tempfile.mkdtemp(prefix="verif-c11-"), "shot.png")
        err, size_at_return = None, None
        try:
            cl.captureScreen(path)
            size_at_return = os.path.getsize(path) if os.path.exists(path) else 0
            srv.note("returned", "capture")
        except Exception as e:  # noqa
            err = "%s: %s" % (type(e).__name__, e)
        try:
            cl.disconnect()
        except Exception:  # noqa
            pass
        with srv.lock:
            evs = list(srv.events)
        need = 1 if cursor_first else 0
        ctx.count("real_capture_sessions")
        ctx.case(None, key=("capture", si))
        bad = err
        if not bad and (("reply", need) not in evs or evs.index(("returned", "capture")) < evs.index(("reply", need))):
            bad = "captureScreen returned before the server had sent the update with pixel data"
        if not bad and not size_at_return:
            bad = "captureScreen returned but the file was empty / missing at that moment"
        if bad:
            ctx.violate("returns-before-completion", {"input": {"call": "captureScreen(path)", "first_reply_cursor_only": cursor_first},
                                                      "observed": "%s; order of events %r" % (bad, evs[:10]),
                                                      "how": "vncdotool.api against a loopback RFB server whose first reply is a cursor-shape-only update"})


class OpError(Exception):
    pass


LOG = []
LOGLOCK = threading.Lock()


def log(*ev):
    with LOGLOCK:
        LOG.append(ev)


class ProbeClient(vclient.VNCDoToolClient):
    def op_fast(self, tag):
        log("start", self.name, tag); log("finish", self.name, tag)
        return ("fast", self.name.decode("latin-1"), tag)

    def op_slow(self, tag, delay=0.03):
        log("start", self.name, tag)
        d = Deferred()

        def fire():
            log("finish", self.name, tag)
            d.callback(("slow", self.name.decode("latin-1"), tag))
        reactor.callLater(delay, fire)
        return d

    def op_fail(self, tag):
        log("start", self.name, tag); log("finish", self.name, tag)
        raise OpError("fail %s %s" % (self.name.decode("latin-1"), tag))

    def op_afail(self, tag, delay=0.02):
        log("start", self.name, tag)
        d = Deferred()

        def fire():
            log("finish", self.name, tag)
            d.errback(OpError("afail %s %s" % (self.name.decode("latin-1"), tag)))
        reactor.callLater(delay, fire)
        return d

    def op_none(self, tag):
        log("start", self.name, tag); log("finish", self.name, tag)
        return None


class ProbeFactory(vclient.VNCDoToolFactory):
    protocol = ProbeClient


def expected(kind, srv, tag):
    if kind == "op_fast":
        return ("ok", ("fast", srv, tag))
    if kind == "op_slow":
        return ("ok", ("slow", srv, tag))
    if kind == "op_none":
        return ("ok", None)
    if kind == "op_fail":
        return ("err", "OpError", "fail %s %s" % (srv, tag))
    return ("err", "OpError", "afail %s %s" % (srv, tag))


def drive(cl, srvname, calls, out, pre_delay):
    time.sleep(pre_delay)
    for tag, kind in enumerate(calls):
        try:
            v = getattr(cl, kind)(tag)
            out.append(("ok", v))
        except TimeoutError:
            out.append(("timeout",))
            return
        except Exception as e:  # noqa
            out.append(("err", type(e).__name__, str(e)))


def run(ctx):
    r = ctx.rng
    # Failures of refused connections that nobody consumes are reported by Twisted when they are garbage collected
    # ("Unhandled error in Deferred"), possibly after the verdict line: send Twisted's log nowhere
    from twisted.python import log as tlog
    tlog.startLoggingWithObserver(lambda event: None, setStdout=False)
    srvA, srvB = Server("srvA"), Server(b"srvB-B\xfcro")
    real_operation_leg(ctx)
    real_capture_leg(ctx)
    srvAuth = Server("srvAuth")
    srvAuth.auth = True
    srvA.start(); srvB.start(); srvAuth.start()
    dead = socket.socket(); dead.bind(("127.0.0.1", 0)); deadport = dead.getsockname()[1]; dead.close()   # nobody listens there
    kinds = ["op_fast", "op_slow", "op_fail", "op_afail", "op_none"]
    try:
        n = ctx.n(25, 300)
        lines, meta = [], []
        for si in range(n):
            two = r.random() < .5
            refused = r.random() < .25
            how_refused = r.choice(["tcp", "auth", "dns"]) if refused else None
            if si == 4:
                refused, how_refused = True, "dns"
            if si == 3:
                refused, how_refused = True, "auth"
            del LOG[:]
            specs = []
            for ci in range(2 if two else 1):
                calls = [r.choice(kinds) for _ in range(r.randint(3, 8 if ctx.tier == "quick" else 12))]
                if si < 3:
                    calls = ["op_none", "op_fast", "op_fail", "op_fast", "op_afail", "op_slow"][: 3 + si] + calls[:2]
                specs.append(calls)
            srvA.delay = r.choice([0, 0, 0.05])
            srvB.delay = r.choice([0, 0.05])
            clients, outs, threads = [], [], []
            for ci, calls in enumerate(specs):
                srv = (srvA, srvB)[ci]
                port = (deadport if how_refused == "tcp" else srvAuth.port) if (refused and ci == 0) else srv.port
                target = "no-such-host.invalid::5900" if (refused and ci == 0 and how_refused == "dns") else "127.0.0.1::%d" % port
                cl = api.connect(target, factory_class=ProbeFactory, timeout=8)
                clients.append(cl)
                out = []
                outs.append(out)
                th = threading.Thread(target=drive, args=(cl, srv.name_, calls, out, r.choice([0, 0, 0.01, 0.1])), daemon=True)
                threads.append(th)
            for th in threads:
                th.start()
            for th in threads:
                th.join(120)
            hung = any(th.is_alive() for th in threads)
            for cl in clients:
                try:
                    cl.disconnect()
                except Exception:  # noqa
                    pass
            rp = {"input": {"calls": specs, "two_clients": two, "connection_refused_for_client_0": refused, "how": how_refused},
                  "how": "vncdotool.api.connect with the real reactor thread against loopback RFB servers; a probe client class provides the operations"}
            nt = any(k in ("op_fail", "op_afail", "op_none") for calls in specs for k in calls[:-1])
            ctx.case({"calls": specs, "refused": refused, "returned": [[list(map(str, o))[:2] for o in out][:4] for out in outs]} if len(ctx.samples) < 3 and nt else None,
                     key=repr((specs, refused)) if nt else None)
            ctx.count("two_clients" if two else "one_client")
            if refused:
                ctx.count("refused_" + how_refused)
            if hung:
                ctx.violate("call-blocks", dict(rp, observed="an application thread is still blocked after 120 s"))
                continue
            ok = True
            for ci, (calls, out) in enumerate(zip(specs, outs)):
                srvname = (srvA.name_, srvB.name_)[ci]
                for tag, kind in enumerate(calls):
                    if tag >= len(out):
                        ctx.violate("call-blocks", dict(rp, observed="client %d call %d (%s) never returned" % (ci, tag, kind)))
                        ok = False
                        break
                    got = out[tag]
                    if refused and ci == 0:
                        # every call raises the error of the CONNECTION (the same one each time), not a secondary failure
                        if got[0] == "err" and out[0][0] == "err" and (got[1] != out[0][1] or got[1] in ("AttributeError", "TypeError")):
                            ctx.violate("refused-does-not-raise", dict(rp, observed="client %d: call 0 raised %s, call %d raised %s(%s): every call must raise the connection's error" % (ci, out[0][1], tag, got[1], got[2][:60])))
                            ok = False
                            break
                        if got[0] != "err" or got[1] == "OpError":
                            ctx.violate("refused-does-not-raise", dict(rp, observed="client %d call %d gave %r although the connection could not be established (it must raise, not block until the timeout)" % (ci, tag, got)))
                            ok = False
                            break
                        continue
                    want = expected(kind, srvname, tag)
                    if got != want:
                        ctx.violate("wrong-outcome", dict(rp, observed="client %d call %d (%s): got %r, its own operation gives %r" % (ci, tag, kind, got, want)))
                        ok = False
                        break
                if not ok:
                    break
            # reactor side: operations of one client start in call order and never overlap
            with LOGLOCK:
                lg = list(LOG)
            for name in (srvA.wire_name, srvB.wire_name):
                evs = [(e[0], e[2]) for e in lg if e[1] == name]
                want = []
                for tag in range(len([e for e in evs if e[0] == "start"])):
                    want += [("start", tag), ("finish", tag)]
                if evs != want and ok:
                    ctx.violate("overlap-or-reorder", dict(rp, observed="reactor-side log of %s: %r" % (name.decode("latin-1"), evs[:12])))
            # model: the same schedule as a run of the LTS (sequential per client; clients interleaved call by call)
            labels = []
            for ci, calls in enumerate(specs):
                fail = refused and ci == 0
                labels += ["c%d:%s" % (ci, "fail9" if fail else "ok")]
            for tag in range(max(len(c) for c in specs)):
                for ci, calls in enumerate(specs):
                    if tag < len(calls):
                        fail = refused and ci == 0
                        labels += ["a%d" % ci, "t"] + ([] if fail else ["f%d" % ci]) + ["g%d" % ci]
            oc = ";".join(",".join("%d" % (1 if k in ("op_fail", "op_afail") else 0) for k in calls) for calls in specs)
            lines.append("api-run %s %s" % (oc, " ".join(labels)))
            meta.append((specs, outs, refused, rp))
        mout = ctx.drive(lines)
        if mout is not None:
            for (specs, outs, refused, rp), mo in zip(meta, mout):
                # model output: per client, comma separated o/e per returned call
                want = []
                for ci, (calls, out) in enumerate(zip(specs, outs)):
                    want.append(",".join("e" if o[0] == "err" else "o" for o in out))
                if mo != "ok " + ";".join(want):
                    ctx.disagree("model-vs-api", {"input": rp["input"], "impl": ";".join(want), "model": mo})
    finally:
        srvA.stop = srvB.stop = srvAuth.stop = True
        try:
            api.shutdown()
        except Exception:  # noqa
            pass
        srvA.sock.close(); srvB.sock.close(); srvAuth.sock.close()
