"""C09 -- vncdo's exit status tells the truth and --timeout bounds the run."""
from __future__ import annotations
from appsession import *  # noqa

ID = "C09"
PROOF_MODULES = ["VncProofs.C08", "VncProofs.SystemExit", "VncProofs.SystemExit2"]
THEOREMS = ["Vnc.C09_completed_iff_closed", "Vnc.C09_zero_only_if_completed", "Vnc.C09_nonzero_cases", "Vnc.C09_run_zero", "Vnc.C09_timeout_bound",
            "Vnc.C09_timeout_status", "Vnc.C08_advance_markers", "Vnc.C08_closes_last",
            "Vnc.procRun_completed", "Vnc.C09_proc_zero", "Vnc.C09_proc_zero_conv", "Vnc.advance_completed_done", "Vnc.C09_proc_timeout", "Vnc.C09_proc_stop_fixed",
            "Vnc.procRun_chainOK", "Vnc.C09_proc_zero_all_commands", "Vnc.C09_proc_failed_nonzero", "Vnc.sys_dead_no_progress", "Vnc.sys_dead_stays"]
TRUSTED = [
    "Lean 4.33 kernel; standard axioms only",
    "real process exit (sys.exit(reactor.exit_status)), signal handling, sockets and the wall clock are not modelled: vncdo() runs in-process with the reactor replaced by a virtual clock; "
    "the thorough tier additionally runs real `python -m vncdotool.command` subprocesses against scripted loopback servers and compares exit status and duration",
    "Twisted: connectionLost with ConnectionDone after the client's own loseConnection, clientConnectionFailed on refusal, callLater",
]
ASSUMPTIONS = ["a script whose command raises leaves the chain failed and the connection open: vncdo then only ends by --timeout (never with status 0)"]
RULE = ("scripts of 1..6 commands x one fault at a random point of the conversation: connection refused, session refused by the server (3.3 / 3.7 / 3.8, reason possibly empty), authentication failed (3.3 / 3.8 with reason), unknown server message, "
        "clean close by the server before / in the middle of (also half way through an update, with a capture waiting) / after the script, reset (also while vncdo's own close is in progress), silence - each with and without --timeout T; non-trivial = distinct (script, fault, timeout)")

FAULTS = ["none", "refused", "auth-failed", "server-refuses", "unknown-msg", "unknown-encoding", "lose-clean", "lose-clean", "lose-error", "silent", "silent-in-handshake", "lose-in-handshake"]


def cmd_bounds_c09(words):
    nargs = {"key": 1, "type": 1, "move": 2, "click": 1, "mdown": 1, "mup": 1, "drag": 2, "pause": 1, "sleep": 1, "capture": 1, "rcapture": 5, "expect": 2, "rexpect": 4}
    out, i = [], 0
    while i < len(words):
        out.append(i)
        i += 1 + nargs.get(words[i], 0)
    return out + [len(words)]


def play(r, spec, fault, at):
    if fault == "refused":
        # the ways an endpoint reports that no connection could be made: refused, name does not resolve, connect timed out,
        # no route, the generic ConnectError, a bare OSError (UNIX socket missing)
        classes = ["ConnectionRefusedError", "DNSLookupError", "TCPTimedOutError", "NoRouteError", "ConnectError", "OSError"]
        play.n_refused = getattr(play, "n_refused", r.randrange(6)) + 1          # every class in turn
        spec.events = [("connectfailed", classes[play.n_refused % 6])]
        play.n_refused_calls = getattr(play, "n_refused_calls", 0) + 1
        if ((play.n_refused_calls - 1) // 6) % 2 == 0:
            spec.timeout = None        # every class once without --timeout (then only the failure itself can end the run), then once with
        res = run_impl(spec)
        # with a timeout pending, let the timers run out
        return res
    if fault == "server-refuses":
        # the server refuses the session in the handshake: RFB 3.3 security word 0, or zero security types (3.7 / 3.8),
        # followed by a reason string - which may be EMPTY
        for name, (w, h, px) in spec.images.items():
            make_image(name, w, h, px)
        v = Vncdo(spec.words, delay=spec.delay, warp=spec.warp, timeout=spec.timeout)
        res = {"events": [], "error": v.error, "connects": len(v.connects)}
        try:
            v.connect()
            ver = r.choice([b"003", b"007", b"008"])
            reason = bytes(r.randrange(32, 127) for _ in range(r.choice([0, 0, 7])))
            data = b"RFB 003." + ver + b"\n" + (struct.pack("!I", 0) if ver == b"003" else bytes([0])) + struct.pack("!I", len(reason)) + reason
            parts = [data] if r.random() < .6 else [data[:13], data[13:]]
            spec.events = []
            for part in parts:
                tk = v.feed(part)
                st = v.status()
                res["events"].append(("recv", tk, {"status": st[0], "stopped": st[1], "pending_stop": v.pending_stop(), "now": 0}))
                spec.events.append(("recv", part))
            if v.proto.transport.closed:
                tk = v.lose(True)
                st = v.status()
                res["events"].append(("lose-clean", tk, {"status": st[0], "stopped": st[1], "pending_stop": v.pending_stop(), "now": 0}))
                spec.events.append(("lose", True))
            while v.reactor.getDelayedCalls() and v.reactor.stopped_at is None:
                t, tk = v.fire()
            res["final_status"] = v.status()
            res["zlog"] = []
            res["auth"] = True
            return res
        finally:
            v.close()
    if fault == "auth-failed":
        # the server asks for VNC authentication and rejects the response
        for name, (w, h, px) in spec.images.items():
            make_image(name, w, h, px)
        v = Vncdo(spec.words, delay=spec.delay, warp=spec.warp, timeout=spec.timeout, password="secret")
        res = {"events": [], "error": v.error, "connects": len(v.connects)}
        try:
            v.connect()
            ver = r.choice([b"003", b"008"])
            data = b"RFB 003." + ver + b"\n" + (struct.pack("!I", 2) if ver == b"003" else bytes([1, 2])) + bytes(16) + struct.pack("!I", 1)
            if ver == b"008":
                reason = bytes(r.randrange(32, 127) for _ in range(r.choice([0, 5])))
                data += struct.pack("!I", len(reason)) + reason
            tk = v.feed(data)
            st = v.status()
            res["events"].append(("recv", tk, {"status": st[0], "stopped": st[1], "pending_stop": v.pending_stop(), "now": 0}))
            spec.events = [("recv", data)]
            if v.proto.transport.closed:
                tk = v.lose(True)
                st = v.status()
                res["events"].append(("lose-clean", tk, {"status": st[0], "stopped": st[1], "pending_stop": v.pending_stop(), "now": 0}))
                spec.events.append(("lose", True))
            while v.reactor.getDelayedCalls() and v.reactor.stopped_at is None:
                t, tk = v.fire()
            res["final_status"] = v.status()
            res["zlog"] = []
            res["auth"] = True
            return res
        finally:
            v.close()
    if fault == "lose-in-handshake":
        spec.lose_in_handshake = r.random() < .5
        play.n_lih = getattr(play, "n_lih", 0) + 1
        if play.n_lih % 2 == 1:
            spec.timeout = None          # without --timeout only the loss itself can end the run
        return drive(r, spec, faults=[], max_steps=40)
    if fault == "silent-in-handshake":
        spec.silent_in_handshake = True
        return drive(r, spec, faults=[], max_steps=40)
    faults = [] if fault == "none" else [(at, fault)]
    res = drive(r, spec, faults=faults, max_steps=40)
    return res


def run(ctx):
    r = ctx.rng
    n = ctx.n(360, 3000)
    lines, checks = [], []
    with Workdir():
        for si in range(n):
            spec = build_session(r, kinds=["key", "move", "click", "pause", "capture", "type", "drag"], ncmd=r.randint(1, 6))
            spec.timeout = r.choice([None, None, 0.5, 2.0, 5.0])
            fault = r.choice(FAULTS)
            at = r.randint(0, 6)
            if fault in ("unknown-encoding", "unknown-msg") and si % 2 == 0:
                at = 0          # right after the handshake: a protocol fault planned for a later step is lost when the script is short
            if si % 6 == 1:
                # the last command waits for an update when the server goes away - after it has already sent some
                spec = build_session(r, kinds=["capture", "key"], ncmd=r.randint(1, 2))
                spec.words += ["capture", "last.png"]
                spec.timeout = r.choice([None, 2.0])
                spec.unsolicited = 0.7
                spec.midloss = 0.35
                fault, at = r.choice(["lose-clean", "lose-clean", "lose-error"]), r.randint(2, 6)
                if r.random() < .5:
                    # ... or the first completed update carries no pixel data, and the script runs to its end
                    spec.nocursor = True
                    spec.first_update_cursor_only = True
                    spec.midloss = 0
                    fault = r.choice(["none", "none", "lose-clean"])
                    at = r.randint(4, 8)
            if si % 12 == 3:
                # the server closes CLEANLY while the script sits in a short pause; what is left of the script takes less than the
                # 0.1 s between the loss and reactor.stop, so it runs to its end on the dead connection - that is not success
                spec = build_session(r, kinds=["key", "move", "click"], ncmd=r.randint(1, 2))
                spec.words = spec.words + ["pause", r.choice(["0", "0.25"])] + r.choice([["key", "b"], ["key", "b", "move", "3", "4"], ["click", "1"]])
                spec.warp, spec.delay = 4.0, 0          # (durations stay dyadic: the model counts in ticks of 1/8192 s)
                spec.timeout = r.choice([None, None, 5.0])
                spec.close_reset = 0
                fault, at = "lose-clean", 0
                ctx.count("sessions_lost_cleanly_in_a_short_pause")
            if si % 12 == 9:
                # the script runs to its end and vncdo closes - but the close never goes through (the peer has stopped reading:
                # connectionLost is never delivered).  --timeout still has to end the run.
                spec = build_session(r, kinds=["key", "move", "click", "type"], ncmd=r.randint(1, 3))
                spec.timeout = r.choice([2.0, 5.0])
                spec.close_hangs = True
                fault, at = "none", 0
                ctx.count("sessions_whose_close_never_completes")
            if si % 12 == 7:
                # ... deterministically: the last capture is pending, a screen exists, the server closes (cleanly or not)
                spec = build_session(r, kinds=["capture", "key"], ncmd=r.randint(1, 2))
                spec.words = ["capture", "first.png"] + spec.words + [r.choice(["capture", "capture", "rcapture"]), "last.png"]
                if spec.words[-2] == "rcapture":
                    spec.words += ["0", "0", "3", "2"]
                spec.timeout = r.choice([None, 5.0])
                spec.lose_when_last_waits = r.choice([1, 1, 0])
                fault, at = "none", 0
                ctx.count("sessions_lost_while_the_last_capture_waits")
            if si % 6 == 4:
                # a command that raises inside the chain (bad button, coordinate out of range, image that does not exist): the rest of
                # the script is skipped, the connection stays up - and then the server goes away, cleanly
                bad = r.choice([["click", "0"], ["move", "70000", "0"], ["expect", "missing.png", "0"], ["mdown", "0"]])
                bnds = cmd_bounds_c09(spec.words)
                at_w = r.choice(bnds)
                spec.words = spec.words[:at_w] + bad + spec.words[at_w:]
                fault, at = r.choice(["lose-clean", "lose-clean", "lose-error", "silent"]), r.randint(3, 8)
                ctx.count("scripts_with_a_raising_command")
            spec.close_reset = 0.25
            res = play(r, spec, fault, at)
            tl = [t for e in res["events"] for t in e[1]]
            try:
                ncmds = len(getattr(spec, "cmdtoks", None) or cmd_tokens(spec.words, {}, spec.delay))
            except Exception:
                ncmds = -1
            # vncdo's own close: the one that follows the last command's finish marker (a protocol abort also closes)
            completed = any(t == "close" and i > 0 and tl[i - 1] == "finish:%d" % (ncmds - 1) for i, t in enumerate(tl))
            kinds = [e[0] for e in res["events"]]
            # after the fault (or the end) let every remaining timer run: stop / timeout
            st, stopped = res.get("final_status", (None, None))
            if st is None and res["events"]:
                last = res["events"][-1][-1]
                st, stopped = last["status"], last["stopped"]
            inp = {"words": spec.words, "delay": spec.delay, "warp": spec.warp, "timeout": spec.timeout, "fault": fault, "at_step": at,
                   "events": kinds[:40]}
            if fault == "refused":
                inp["endpoint_failure"] = spec.events[0][1]
                ctx.count("connect_failure_" + spec.events[0][1])
            rp = {"input": inp, "how": "the real vncdo() in-process with a virtual clock; the fault is injected at the given step of the conversation; reactor.exit_status / reactor.stop are observed"}
            ctx.case({"words": spec.words, "fault": fault, "timeout": spec.timeout, "status": st, "completed": completed} if len(ctx.samples) < 3 and fault != "none" else None,
                     key=(repr(spec.words), fault, at, spec.timeout))
            ctx.count("fault_" + fault)
            ctx.count("status_%s" % st)
            if "raise:spin" in tl:
                ctx.violate("hang", dict(rp, observed="dataReceived never returned (cut off by the harness' alarm): the process would hang, and --timeout could not fire because the reactor is blocked"))
                continue
            lost_idx = next((i for i, k in enumerate(kinds) if k.startswith("lose") or k == "connectfailed"), None)
            # vncdo's own close happens BEFORE the transport reports the loss (a "close" that is a reaction to the loss is not vncdo closing the connection)
            close_before_lost = completed and (lost_idx is None or any("close" in e[1] for e in res["events"][:lost_idx]))
            # status 0 only if the script was carried out completely and vncdo itself then closed the connection
            if st == 0 and not (completed and close_before_lost and "lose-clean" in kinds):
                ctx.violate("status-zero-lie", dict(rp, observed="exit status 0 although the script was not completed / the connection was not closed by vncdo (events %r)" % kinds[-6:]))
            # a close that is not the one after the last command's finish marker is the client aborting (protocol error, refusal):
            # whatever happens afterwards, the run must not report success
            fin = next((i for i, t in enumerate(tl) if t == "finish:%d" % (ncmds - 1)), len(tl))
            aborted = any(t == "close" for t in tl[:fin])
            if aborted:
                ia = next(i for i, t in enumerate(tl[:fin]) if t == "close")
                later = [t for t in tl[ia + 1:] if t.split(":")[0] in ("upd", "fill", "copy", "commit", "begin", "save", "desktop", "cursor", "bell", "made")]
                if later:
                    ctx.violate("progress-after-abort", dict(rp, observed="after aborting the connection (close) the client went on interpreting the server's data: %r - a script could complete and report success on a connection it had given up" % later[:4]))
            if st == 0 and aborted:
                ctx.violate("status-zero-lie", dict(rp, observed="exit status 0 although the client had aborted the connection (a close before the script was complete)"))
            ncap = sum(1 for w_ in spec.words if w_ in ("capture", "rcapture"))
            nsaved = sum(1 for t in tl if t.startswith("save:"))
            if st == 0 and nsaved < ncap:
                ctx.violate("status-zero-lie", dict(rp, observed="exit status 0 although only %d of the script's %d captures wrote an image" % (nsaved, ncap)))
            if st in (None, 1) and (lost_idx is not None):
                ctx.violate("no-status", dict(rp, observed="the connection is gone but no exit status was set (exit_status=%r)" % st))
            if fault in ("auth-failed", "server-refuses") and (st in (None, 1) or "close" not in tl):
                ctx.violate("no-status", dict(rp, observed="the server refused / failed the authentication but vncdo did not close the connection and set a status (exit_status=%r, trace %r)" % (st, tl[-4:])))
            if res.get("aborted_on_unknown_encoding") is False and "close" not in tl:
                ctx.violate("no-abort-on-protocol-error", dict(rp, observed="a rectangle in an encoding the client does not implement did not make it abort: it went on as if the update were understood"))
            if fault in ("silent-in-handshake",) and st == 0:
                ctx.violate("status-zero-lie", dict(rp, observed="fault %s ended with exit status 0" % fault))
            if fault in ("refused", "auth-failed", "server-refuses") and st == 0:
                ctx.violate("status-zero-lie", dict(rp, observed="fault %s ended with exit status 0" % fault))
            # --timeout T bounds the run: the reactor is stopped at virtual time <= T + 0.1 s
            if spec.timeout is not None:
                if stopped is None:
                    ctx.violate("timeout-not-bounding", dict(rp, observed="with --timeout %s the reactor was never stopped (exit_status=%r)" % (spec.timeout, st)))
                elif stopped > ticks(spec.timeout) + 4096:
                    ctx.violate("timeout-not-bounding", dict(rp, observed="with --timeout %s the reactor stopped at %.3f s" % (spec.timeout, stopped / TICK)))
                if not completed and st == 0:
                    ctx.violate("status-zero-lie", dict(rp, observed="timeout run ended with status 0 although the script was not completed"))
            if not res.get("auth") and fault != "refused":
                ml, chk = compare_with_model(ctx, spec, res, "model-vs-vncdo", inp)
                if chk:
                    checks.append((len(lines), len(ml), chk))
                    lines += ml
    mout = ctx.drive(lines)
    if mout is not None:
        for off, k, chk in checks:
            chk(mout[off:off + k])
    if ctx.tier == "thorough":
        subprocess_leg(ctx)


# ----------------------------------------------------------------------------- thorough: real processes, real sockets

def subprocess_leg(ctx):
    import socket, subprocess, threading, time, os

    class Srv(threading.Thread):
        def __init__(self, mode):
            super().__init__(daemon=True)
            self.mode = mode
            self.sock = socket.socket()
            self.sock.bind(("127.0.0.1", 0))
            self.sock.listen(2)
            self.port = self.sock.getsockname()[1]

        def run(self):
            try:
                self.sock.settimeout(20)
                conn, _ = self.sock.accept()
                conn.settimeout(10)
                m = self.mode
                if m == "silent-before-banner":
                    time.sleep(8); conn.close(); return
                conn.sendall(b"RFB 003.008\n")
                conn.recv(12)
                if m == "auth-failed":
                    conn.sendall(bytes([1, 2]) + bytes(16))
                    conn.recv(16)
                    conn.sendall(struct.pack("!II", 1, 4) + b"nope")
                    time.sleep(0.3); conn.close(); return
                conn.sendall(bytes([1, 1]))
                conn.recv(1)
                conn.sendall(struct.pack("!I", 0))
                conn.recv(1)
                conn.sendall(struct.pack("!HH", 4, 4) + vclient.RGB32.to_bytes() + struct.pack("!I", 1) + b"x")
                if m == "unknown-msg":
                    time.sleep(0.1); conn.sendall(b"\x09"); time.sleep(0.5); conn.close(); return
                if m == "close-mid-script":
                    time.sleep(0.15); conn.close(); return
                if m == "reset":
                    time.sleep(0.15)
                    conn.setsockopt(socket.SOL_SOCKET, socket.SO_LINGER, struct.pack("ii", 1, 0)); conn.close(); return
                if m == "silent":
                    time.sleep(8); conn.close(); return
                # well-behaved: swallow until the client closes
                while True:
                    try:
                        if not conn.recv(4096):
                            break
                    except socket.timeout:
                        break
                conn.close()
            except Exception:  # noqa
                pass
            finally:
                self.sock.close()

    cases = [("ok", None, 0), ("auth-failed", None, "nz"), ("unknown-msg", None, "nz"), ("close-mid-script", None, "nz"), ("reset", None, "nz"),
             ("silent", 1.0, "nz"), ("silent-before-banner", 1.0, "nz"), ("refused", None, "nz"), ("ok", 5.0, 0)]
    for mode, timeout, want in cases:
        if mode == "refused":
            s_ = socket.socket(); s_.bind(("127.0.0.1", 0)); port = s_.getsockname()[1]; s_.close()
        else:
            srv = Srv(mode); srv.start(); port = srv.port
        argv = ["/venv/bin/python", "-m", "vncdotool.command", "-s", "127.0.0.1::%d" % port, "--delay", "0"]
        if mode == "auth-failed":
            argv += ["-p", "secret"]
        if timeout:
            argv += ["--timeout", str(timeout)]
        if mode == "silent":
            import tempfile
            argv += ["key", "a", "capture", os.path.join(tempfile.gettempdir(), "verif-c09-never.png"), "key", "b"]   # needs an update that never comes
        else:
            argv += ["key", "a", "pause", "0.4", "key", "b"]
        t0 = time.time()
        try:
            p = subprocess.run(argv, cwd=REPO, env=dict(os.environ, PYTHONPATH=REPO), stdout=subprocess.PIPE, stderr=subprocess.PIPE, timeout=30)
            rc = p.returncode
        except subprocess.TimeoutExpired:
            rc = "hang"
        dur = time.time() - t0
        ctx.evaluations += 1
        ctx.count("subprocess_%s_rc_%s" % (mode, rc))
        rp = {"input": {"server": mode, "timeout": timeout, "argv": argv[3:]}, "how": "real `python -m vncdotool.command` process against a scripted loopback server"}
        if rc == "hang" or (want == 0 and rc != 0) or (want == "nz" and rc == 0):
            ctx.violate("process-exit-status", dict(rp, observed="exit status %r after %.1f s (expected %s)" % (rc, dur, "0" if want == 0 else "non-zero")))
        if timeout and dur > timeout + 3.0:
            ctx.violate("process-timeout", dict(rp, observed="--timeout %s but the process ran %.1f s" % (timeout, dur)))
