"""C15 -- No server input can make the client spin."""
from __future__ import annotations
import resource, sys, os
from rfbgen import *  # noqa

ID = "C15"
PROOF_MODULES = ["VncProofs.C01", "VncProofs.Framing", "VncProofs.C15Sys"]
THEOREMS = ["Vnc.rfb_progress", "Vnc.C15_no_spin", "Vnc.C15_no_spin_all", "Vnc.C15_steps_linear", "Vnc.C15_empty_reason",
            "Vnc.C15_empty_name", "Vnc.C15_empty_cuttext", "Vnc.C15_zero_colours", "Vnc.C15_dead_stays", "Vnc.drain_enough", "Vnc.drainSteps_le", "Vnc.framing_constants_need", "Vnc.C15_sys_no_spin", "Vnc.C15_sys_no_spin_all", "Vnc.C15_sys_steps_linear"]
TRUSTED = [
    "Lean 4.33 kernel; standard axioms only. The model is total Lean: termination of every handler-internal loop (sub-rectangle loops, the ZRLE tile/run/palette loops) is checked by the kernel through structural recursion / fuel that is at least the remaining input",
    "VncModel/Rfb.lean is tied to rfb.py by the correspondence run: hostile and grammar-derived streams, outputs compared up to the first close/raise, exception classes included",
    "zlib is a parameter (inflate outputs recorded from the implementation); its expansion ratio and Pillow's canvas allocation (C12) are outside this property (RLIMIT_AS turns giant allocations into MemoryError; such cases are counted, not compared)",
]
ASSUMPTIONS = ["scope: the RFB receive path of rfb.py (all _handle* states); work is measured in Python-level calls of rfb.py functions against 16*(bytes received + bytes inflated) + 64"]
RULE = ("grammar-derived server streams in which every length/count field is independently set to 0, 1, its natural value or its maximum; "
        "zero-area rectangles and zero-area / zero-count sub-rectangles in Raw, CopyRect, RRE, CoRRE and Hextile; truncated at random positions; random byte mutations; pure random bytes after a valid handshake; ZRLE blocks with surplus/short tile data and "
        "zero/oversized dimensions; delivered whole, byte-wise (short) or randomly chunked, to the base and the library client. Non-trivial = distinct stream that "
        "reaches a state beyond the handshake")


class Counter:
    """counts Python-level calls (incl. generator resumptions) of functions defined in rfb.py"""

    def __init__(self):
        self.n = 0
        self.limit = 1 << 60

    def __call__(self, frame, event, arg):
        if event == "call" and frame.f_code.co_filename.endswith("rfb.py"):
            self.n += 1
            if self.n > self.limit:
                # keeps raising at every further call: a bare `except:` on the way (Twisted's Deferred) cannot stop it
                raise Spin()


def arm_waiter(c, trace):
    """an application waiting for updates (as capture/expect do): its Deferred fires at every commitUpdate and it waits again"""
    from twisted.internet.defer import Deferred

    def fired(cl):
        trace.append(("cb", "fired"))
        arm_waiter(c, trace)
        return cl
    c.deferred = Deferred()
    c.deferred.addCallback(fired)


def arm_capture(c, trace):
    """a real pending operation: captureScreen into memory, issued again whenever it completes (so that one is always waiting)"""
    import io
    try:
        d = c.captureScreen(io.BytesIO(), format="png")
    except Exception:  # noqa
        return

    def again(cl):
        trace.append(("cb", "fired"))
        if len(trace) < 200000:
            arm_capture(c, trace)
        return cl
    d.addCallback(again)
    d.addErrback(lambda f: None)


def run_budgeted(kind, opts, chunks):
    c, trace, zlog = new_client(kind, **opts)
    if kind != "base":
        if sum(len(x) for x in chunks) % 2:
            c._verif_capture = True          # armed once the session is established (see below)
        else:
            arm_waiter(c, trace)
    cnt = Counter()
    per = []
    total = 0
    over = None
    for ch in chunks:
        total += len(ch)
        n0 = len(trace)
        z0 = sum(len(z or b"") for z in zlog)
        # generous per-call limit: bytes so far + what zlib may inflate this chunk to is not known in advance -> check afterwards
        cnt.limit = cnt.n + 16 * (total + (1 << 17)) + 64
        exc = None
        sys.setprofile(cnt)
        try:
            with Budget(20.0):
                c.dataReceived(bytes(ch))
        except BaseException as e:  # noqa
            exc = exc_class(e)
        finally:
            sys.setprofile(None)
        if exc in ("mem", "spin") and len(trace) > n0 + 2000:
            del trace[n0 + 2000:]          # a runaway handler: keep the harness itself within its memory limit
        t = toks(trace[n0:])
        if getattr(c, "_verif_capture", False) and "made" in t and exc is None:
            c._verif_capture = False
            n1 = len(trace)
            arm_capture(c, trace)
        if exc:
            t.append("raise:" + exc)
        per.append(t)
        inflated = sum(len(z or b"") for z in zlog)
        if cnt.n > 16 * (total + inflated) + 64 and over is None:
            over = (cnt.n, total, inflated)
        if exc:
            break
    return per, zlog, cnt.n, over, auth_response_of(c, kind, opts)


def mutate_fields(r, stream, bounds):
    """set a 1/2/4-byte field somewhere to 0, 1 or max"""
    b = bytearray(stream)
    for _ in range(r.randint(1, 3)):
        if len(b) < 16:
            break
        i = r.randrange(12, len(b))
        k = r.choice([1, 2, 4])
        v = r.choice([0, 1, (1 << (8 * k)) - 1, r.randrange(1 << (8 * k))])
        b[i:i + k] = v.to_bytes(k, "big")[:max(0, min(k, len(b) - i))]
    return bytes(b)


def gen_stream(r, kind, opts):
    parts, pf, ver, authresp, (w, h) = gen_handshake(r, kind if kind != "vmware" else "lib", opts)
    sess = Session(pf)
    how = r.random()
    extra = b""
    if how < .25:
        # zero-length / failure paths of the handshake
        ver = r.choice([(3, 3), (3, 7), (3, 8)])
        banner = b"RFB %03d.%03d\n" % ver
        reason = bytes(r.randrange(256) for _ in range(r.choice([0, 0, 1, 5])))
        trailing = bytes(r.randrange(256) for _ in range(r.choice([0, 1, 8, 40])))
        k = r.random()
        if ver == (3, 3):
            body = struct.pack("!II", 0, len(reason)) + reason if k < .5 else struct.pack("!I", 2) + bytes(16) + struct.pack("!I", r.choice([1, 2, 3]))
        elif k < .4:
            body = bytes([0]) + struct.pack("!I", len(reason)) + reason
        elif k < .7:
            body = bytes([1, 1]) + (struct.pack("!II", r.choice([1, 2]), len(reason)) + reason if ver == (3, 8) else b"")
        else:
            body = bytes([1, 30]) + struct.pack("!HH", r.choice([0, 2, 5]), r.choice([0, 0, 1, 2])) + bytes(r.choice([0, 2, 4]))
        return banner + body + trailing, authresp, "handshake-failure"
    msgs = gen_messages(r, sess, r.randint(1, 4), maxarea=600)
    stream = b"".join(parts + [m[0] for m in msgs])
    if how < .45:
        return stream, authresp, "valid"
    if how < .6:
        return stream[:r.randrange(12, len(stream) + 1)], authresp, "truncated"
    if how < .74:
        return mutate_fields(r, stream, None), authresp, "field-mutation"
    if how < .83:
        # zero-area rectangles and zero-area / zero-count sub-rectangles in every encoding that has them
        bypp = pf.bpp // 8
        px = lambda: bytes(r.randrange(256) for _ in range(bypp))
        rects = b""
        nrect = r.randint(1, 4)
        for _ in range(nrect):
            enc = r.choice([0, 1, 2, 2, 4, 4, 5])
            w, h = r.choice([0, 0, 1, 2, 17]), r.choice([0, 0, 1, 2, 17])
            if w == 0 and r.random() < .4:
                h = r.choice([65535, 30000, 4096])        # empty, but very tall: still no work to do
            elif h == 0 and r.random() < .4:
                w = r.choice([65535, 30000, 4096])
            x, y = r.choice([0, 1, 5]), r.choice([0, 1, 5])
            rects += struct.pack("!HHHHi", x, y, w, h, enc)
            if enc == 0:
                rects += bytes(r.randrange(256) for _ in range(w * h * bypp))
            elif enc == 1:
                rects += struct.pack("!HH", r.choice([0, 3]), r.choice([0, 3]))
            elif enc == 2:
                nsub = r.choice([0, 1, 2, 5])
                rects += struct.pack("!I", nsub) + px()
                for _ in range(nsub):
                    rects += px() + struct.pack("!HHHH", r.choice([0, 1]), r.choice([0, 1]), r.choice([0, 0, 1, 2]), r.choice([0, 0, 1, 2]))
            elif enc == 4:
                nsub = r.choice([0, 1, 2, 5])
                rects += struct.pack("!I", nsub) + px()
                for _ in range(nsub):
                    rects += px() + bytes([r.choice([0, 1]), r.choice([0, 1]), r.choice([0, 0, 1, 2]), r.choice([0, 0, 1, 2])])
            else:
                # hextile: per 16x16 tile a sub-encoding byte; AnySubrects with a count of 0, background only, raw
                for ty in range(0, h, 16):
                    for tx in range(0, w, 16):
                        tw, th = min(16, w - tx), min(16, h - ty)
                        k = r.choice(["raw", "bg", "sub0", "subn", "none"])
                        if k == "raw":
                            rects += bytes([1]) + bytes(r.randrange(256) for _ in range(tw * th * bypp))
                        elif k == "bg":
                            rects += bytes([2]) + px()
                        elif k == "sub0":
                            rects += bytes([2 | 4 | 8]) + px() + px() + bytes([0])
                        elif k == "subn":
                            n_ = r.choice([1, 3])
                            rects += bytes([2 | 8 | 16]) + px() + bytes([n_]) + b"".join(px() + bytes([0, 0]) for _ in range(n_))
                        else:
                            rects += bytes([0])
        return b"".join(parts) + struct.pack("!BxH", 0, nrect) + rects + sess.bell(), authresp, "zero-area"
    if how < .95:
        # ZRLE with surplus / short tile data, zero dimensions
        zr = enc_zrle(r, pf, 0, 0, r.choice([0, 1, 3, 8, 64, 65]), r.choice([0, 0, 0, 1, 2, 64]))
        k = r.random()
        if k < .5:
            # one more tile than the geometry has room for, of every sub-encoding class (raw, solid, packed palette 2..16, RLE, palette RLE)
            sub = r.choice([0, 1, 2, 2, 3, 3, 3, 4, 4, 4, 5, 9, 16, 16, 17, 127, 128, 129, 130, 255])
            zr.zraw += bytes([sub]) + bytes(r.randrange(256) for _ in range(r.choice([0, 1, 3, 9, 40, 70])))
        elif k < .7:
            zr.zraw = zr.zraw[:r.randrange(len(zr.zraw) + 1)]
        else:
            zr.zraw = bytes(r.randrange(256) for _ in range(r.choice([1, 4, 20, 200])))
        return b"".join(parts) + sess.update([zr]) + sess.bell(), authresp, "zrle-hostile"
    return b"".join(parts) + bytes(r.randrange(256) for _ in range(r.choice([1, 10, 100, 400]))), authresp, "random-tail"


def scaling_leg(ctx):
    """"work proportional to the bytes received", measured as CPU time: one message of n items against one of 4n items
    (sub-rectangle tables, clipboard text, colour maps, raw pixels).  The call counter above cannot see a handler that does
    a linear amount of copying per item."""
    import time
    r = ctx.rng
    pf = vclient.RGB32
    hs = b"RFB 003.008\n" + bytes([1, 1]) + struct.pack("!I", 0) + server_init(64, 64, pf, b"s")

    def px():
        return bytes(r.randrange(256) for _ in range(4))

    def msg(kind, n):
        if kind == "rre":
            return struct.pack("!BxH", 0, 1) + struct.pack("!HHHHi", 0, 0, 64, 64, 2) + struct.pack("!I", n) + px() + (px() + struct.pack("!HHHH", 1, 1, 2, 2)) * n
        if kind == "corre":
            return struct.pack("!BxH", 0, 1) + struct.pack("!HHHHi", 0, 0, 64, 64, 4) + struct.pack("!I", n) + px() + (px() + bytes([1, 1, 2, 2])) * n
        if kind == "cuttext":
            return struct.pack("!BxxxI", 3, 40 * n) + bytes(40 * n)
        if kind == "bells":
            return b"\x02" * (4 * n)            # very many tiny messages in one delivery
        if kind == "colourmap":
            return struct.pack("!BxHH", 1, 0, min(n, 65535)) + bytes(6 * min(n, 65535))
        if kind == "raw":
            h = max(1, (3 * n) // 64)
            return struct.pack("!BxH", 0, 1) + struct.pack("!HHHHi", 0, 0, 64, h, 0) + bytes(64 * h * 4)
        # hextile: many 16x16 tiles with coloured sub-rectangles
        tiles = max(1, n // 60)
        rows = (tiles + 3) // 4
        body = b""
        for _ in range(rows * 4):
            body += bytes([2 | 8 | 16]) + px() + bytes([60]) + (px() + bytes([0x11, 0x00])) * 60
        return struct.pack("!BxH", 0, 1) + struct.pack("!HHHHi", 0, 0, 64, 16 * rows, 5) + body

    def cost(kind, n):
        best = None
        for _ in range(2):
            c, trace, zlog = new_client("base")
            feed_impl(c, trace, [hs])
            chunked = kind.endswith("-chunked")
            m = msg(kind.replace("-chunked", ""), n)
            t0 = time.process_time()
            try:
                with Budget(60.0):
                    if chunked:
                        # the same message in 256-byte segments: buffering must not re-copy what is already buffered
                        data = m + b"\x02"
                        for i in range(0, len(data), 256):
                            c.dataReceived(data[i:i + 256])
                    else:
                        c.dataReceived(m + b"\x02")
            except BaseException as e:  # noqa
                return None, exc_class(e), len(m)
            dt = time.process_time() - t0
            if not trace or trace[-1] != ("cb", "bell"):
                return None, "not consumed", len(m)
            best = dt if best is None else min(best, dt)
        return best, None, len(m)

    for kind in ("rre", "corre", "hextile", "cuttext", "colourmap", "raw", "raw-chunked", "cuttext-chunked", "bells"):
        # sub-rectangle tables: large enough for a per-item copy of the remaining block to dominate the per-item overhead
        # (bells: each message is ONE byte, the per-message interpreter overhead is large against a memmove of the rest of the
        # buffer - the run has to be long for a quadratic term to show: 160 000 / 640 000 messages)
        N = (40000 if kind == "bells" else 15000 if kind in ("rre", "corre") else 20000 if kind.endswith("-chunked") else 6000) * (1 if ctx.tier == "quick" else 2)
        t1, e1, b1 = cost(kind, N)
        t4, e4, b4 = cost(kind, 4 * N)
        ctx.count("scaling_probes")
        ctx.case(None, key=("scaling", kind))
        rp = {"input": {"message": kind, "items": [N, 4 * N], "bytes": [b1, b4]},
              "how": "CPU time (time.process_time, best of 2) of RFBClient.dataReceived for one message of n and of 4n items followed by a Bell"}
        if e1 or e4:
            ctx.violate("spin" if "spin" in (e1, e4) else "scaling-probe-fails", dict(rp, observed="dataReceived failed: %r / %r" % (e1, e4)))
            continue
        ctx.stats["scaling_%s_seconds" % kind] = [round(t1, 4), round(t4, 4)]
        # linear work: t4 ~ (b4/b1) * t1.  Quadratic work: ~ (b4/b1)^2.  Flag when more than 2.2 x the linear prediction (and measurable)
        if t4 > 0.25 and t4 > 2.2 * (b4 / b1) * max(t1, 0.004):
            ctx.violate("superlinear-time", dict(rp, observed="%d bytes took %.3f s, %d bytes took %.3f s: %.1f x the time for %.1f x the bytes" % (b1, t1, b4, t4, t4 / max(t1, 1e-9), b4 / b1)))


def zrle_corpus():
    """always-run corpus: a packed-palette tile of every index width (1, 2, 4 bits) that has NO pixels - a rectangle of height 0
    that nevertheless carries tile data, and a surplus tile after the last one of a 1x1 rectangle"""
    import zlib
    pf = vclient.RGB32
    hs = b"RFB 003.008\n" + bytes([1, 1]) + struct.pack("!I", 0) + server_init(64, 64, pf, b"z")
    out = []
    for psize in (2, 3, 4, 5, 9, 16):
        tile = bytes([psize]) + bytes(3 * psize) + bytes(8)
        for (w, h, pre) in ((8, 0, b""), (3, 0, b""), (1, 1, bytes([1, 7, 7, 7]))):
            z = zlib.compressobj()
            comp = z.compress(pre + tile) + z.flush(zlib.Z_SYNC_FLUSH)
            out.append((hs + struct.pack("!BxH", 0, 1) + struct.pack("!HHHHi", 0, 0, w, h, 16) + struct.pack("!I", len(comp)) + comp + b"\x02", "zrle-corpus"))
    # a hostile server ENDS its zlib stream (a conforming one keeps a single stream open for the whole connection): blocks made
    # of one, two or three complete streams, and of a complete stream followed by the start of another
    solid = bytes([1, 9, 8, 7])
    for streams in ([solid], [solid, solid], [solid, solid, solid], [solid, b""], [b"", b""]):
        comp = b"".join(zlib.compress(x) for x in streams)
        for extra in (b"", zlib.compressobj().compress(solid)):
            blk = comp + extra
            out.append((hs + struct.pack("!BxH", 0, 1) + struct.pack("!HHHHi", 0, 0, 1, 1, 16) + struct.pack("!I", len(blk)) + blk + b"\x02", "zrle-finished-streams"))
    return out


def run(ctx):
    r = ctx.rng
    scaling_leg(ctx)
    corpus = zrle_corpus()
    oldlim = limit_memory(3 << 30)
    n = ctx.n(500, 8000)
    lines_all, meta = [], []
    for si in range(n):
        kind = r.choice(["base", "base", "lib"])
        opts = {}
        if r.random() < .5:
            opts["password"] = "pw%d" % si
        stream, authresp, how = gen_stream(r, kind, opts)
        if si < len(corpus):
            stream, how = corpus[si]
            opts = {}
            authresp = b""
        k = r.random()
        if k < .4 or len(stream) < 2:
            chunks = [stream]
        elif k < .55 and len(stream) <= 400:
            chunks = [stream[i:i + 1] for i in range(len(stream))]
        else:
            cs = sorted(r.sample(range(1, len(stream)), min(r.randint(1, 8), len(stream) - 1)))
            chunks = [stream[a:b] for a, b in zip([0] + cs, cs + [len(stream)])]
        chunks = [c for c in chunks if c]
        per, zlog, calls, over, authresp = run_budgeted(kind, opts, chunks)
        flat = [t for p in per for t in p]
        ctx.count("how_" + how)
        ctx.count("kind_" + kind)
        for t in flat:
            if t.startswith("raise:"):
                ctx.count(t)
        beyond = any(t == "made" for t in flat)
        ctx.case({"kind": kind, "how": how, "stream_bytes": len(stream), "chunks": len(chunks), "calls_of_rfb_functions": calls, "trace_tail": flat[-3:]} if si < 3 else None,
                 key=hx(stream) if beyond else None)
        rp = {"input": {"kind": kind, "opts": opts, "stream": hx(stream), "chunks": [len(c) for c in chunks], "how": how},
              "how": "RFBClient/VNCDoToolClient.dataReceived per chunk under sys.setprofile call counting and a wall-clock alarm"}
        if any(t == "raise:spin" for t in flat):
            ctx.violate("spin", dict(rp, observed="dataReceived did not return within the budget (calls of rfb.py functions so far: %d)" % calls))
        elif over:
            ctx.violate("superlinear", dict(rp, observed="%d calls of rfb.py functions for %d bytes received and %d bytes inflated" % over))
        if any(t == "raise:mem" for t in flat):
            ctx.count("skipped_memoryerror")
            continue
        meta.append((len(lines_all), len(zlog), len(chunks), flat, kind, opts, stream, chunks))
        lines_all += model_lines(kind, opts, zlog, chunks, authresp)
    unlimit_memory(oldlim)
    mout = ctx.drive(lines_all)
    if mout is not None:
        for off, nz, nch, flat, kind, opts, stream, chunks in meta:
            mper = parse_model(mout[off:], nz, nch)
            a = [t for t in until_close(flat) if t != "fired" and not (t.startswith("w:03") and len(t) == 22)]        # the harness' own waiter / captures are not in the model
            b = until_close([t for p in mper for t in p])
            if "diverged" in b:
                ctx.disagree("model-diverged", {"input": {"stream": hx(stream)}})
            if a != b:
                k = next((i for i, (x, y) in enumerate(zip(a, b)) if x != y), min(len(a), len(b)))
                ctx.disagree("model-vs-RFBClient", {"input": {"kind": kind, "opts": opts, "stream": hx(stream), "chunks": [len(x) for x in chunks]},
                                                     "impl": a[max(0, k - 2):k + 3], "model": b[max(0, k - 2):k + 3], "at": k})
