"""Server side of the conversation, written from RFC 6143: handshakes, server messages and a conforming
encoder for every encoding vncdotool supports; recording client classes; the reference painter.

The encoder produces, for each rectangle, the wire bytes AND the pixels a correct client must show
(`paint` list), so that the decoder can be judged against the encoder's intent, not against itself.
"""
from __future__ import annotations
import struct, zlib
from core import *  # noqa
from impl import Fac

E_RAW, E_COPY, E_RRE, E_CORRE, E_HEXTILE, E_ZRLE = 0, 1, 2, 4, 5, 16
E_CURSOR, E_DESKTOP, E_LASTRECT, E_QEMU = -239, -223, -224, -258


def fnv64(bs: bytes) -> int:
    h = 14695981039346656037
    for b in bs:
        h = ((h ^ b) * 1099511628211) & 0xFFFFFFFFFFFFFFFF
    return h


def htok(bs) -> str:
    bs = bytes(bs)
    return "%d.%d" % (len(bs), fnv64(bs))


# ----------------------------------------------------------------------------- recording clients

# (the prompts never block: core.py replaces getpass.getpass / input by stubs BEFORE vncdotool is imported; PROMPT_USER / PROMPT_PW)
ARD_TOKEN = b"ARD"


def limit_memory(nbytes):
    """soft RLIMIT_AS for the implementation runs (giant allocations become MemoryError); returns the old limits"""
    import resource
    old = resource.getrlimit(resource.RLIMIT_AS)
    resource.setrlimit(resource.RLIMIT_AS, (nbytes, old[1]))
    return old


def unlimit_memory(old):
    import resource
    resource.setrlimit(resource.RLIMIT_AS, old)


class _Rec:
    """Mixin: records every application callback into the shared trace (same tokens as lean/Driver/Main.lean)."""
    _in_fill = False

    def _encryptArd(self):
        # the ARD reply is random (os.urandom) and encrypted: its content is property C14; here it is one token
        n0 = len(self.transport.trace)
        r_ = super()._encryptArd()
        del self.transport.trace[n0:]
        self.transport.trace.append(("write", ARD_TOKEN))
        return r_

    def _t(self, tok):
        self.transport.trace.append(("cb", tok))

    def vncAuthFailed(self, reason):
        self._t("authfail:" + (hx(reason if isinstance(reason, bytes) else str(reason).encode()) or "-"))
        return super().vncAuthFailed(reason)

    def vncConnectionMade(self):
        r_ = super().vncConnectionMade()
        if not isinstance(self, vclient.VNCDoToolClient):
            self._t("made")
        return r_

    def beginUpdate(self):
        self._t("begin")
        return super().beginUpdate()

    def commitUpdate(self, rectangles=None):
        self._t("commit:" + ";".join("%d.%d.%d.%d" % r for r in (rectangles or [])))
        return super().commitUpdate(rectangles)

    def updateRectangle(self, x, y, width, height, data):
        if not self._in_fill:
            self._t("upd:%d:%d:%d:%d:%s" % (x, y, width, height, htok(data)))
        return super().updateRectangle(x, y, width, height, data)

    def fillRectangle(self, x, y, width, height, color):
        self._t("fill:%d:%d:%d:%d:%s" % (x, y, width, height, "none" if color is None else (hx(color) or "-")))
        self._in_fill = True
        try:
            return self._fill(x, y, width, height, color)
        finally:
            self._in_fill = False

    def copyRectangle(self, srcx, srcy, x, y, width, height):
        self._t("copy:%d:%d:%d:%d:%d:%d" % (srcx, srcy, x, y, width, height))
        return super().copyRectangle(srcx, srcy, x, y, width, height)

    def updateCursor(self, x, y, width, height, image, mask):
        self._t("cursor:%d:%d:%d:%d:%s:%s" % (x, y, width, height, htok(image), htok(mask)))
        return super().updateCursor(x, y, width, height, image, mask)

    def updateDesktopSize(self, width, height):
        self._t("desktop:%d:%d" % (width, height))
        return super().updateDesktopSize(width, height)

    def bell(self):
        self._t("bell")
        return super().bell()

    def copy_text(self, text):
        self._t("cut:" + (hx(text.encode("latin-1")) or "-"))
        return super().copy_text(text)

    def set_color_map(self, first, colors):
        self._t("cmap:%d:%s" % (first, ",".join("%d.%d.%d" % c for c in colors)))
        return super().set_color_map(first, colors)


class RecBase(_Rec, rfb.RFBClient):
    def _fill(self, x, y, w, h, color):
        # rfb.RFBClient.fillRectangle would compute `color * width * height` and hand it to the (empty) base
        # updateRectangle; the only observable is the TypeError for a missing colour. Avoid the allocation.
        color * 0


class RecLib(_Rec, vclient.VNCDoToolClient):
    def _fill(self, x, y, w, h, color):
        # whatever fillRectangle the client class has (today: the base class' "repeat the colour and call updateRectangle")
        return super(_Rec, self).fillRectangle(x, y, w, h, color)


from vncdotool import command as vcommand  # noqa: E402


class RecCli(_Rec, vcommand.VNCDoCLIClient):
    def _fill(self, x, y, w, h, color):
        return super(_Rec, self).fillRectangle(x, y, w, h, color)


class RecFac(Fac):
    def clientConnectionMade(self, p):
        self.events.append(("cb", "made"))

    def clientConnectionFailed(self, p, reason):
        self.events.append(("cb", "connfailed"))


class RecVM(_Rec, vclient.VMWareClient):
    def _fill(self, x, y, w, h, color):
        return super(_Rec, self).fillRectangle(x, y, w, h, color)


KINDS = {"base": RecBase, "lib": RecLib, "cli": RecCli, "vmware": RecVM}


class ZLog:
    """Wraps the client's zlib stream: records what every decompress() call returned (the model's oracle)."""

    def __init__(self, inner, log):
        self.inner, self.log = inner, log

    def __getattr__(self, name):
        return getattr(self.inner, name)        # unused_data, eof, ...: everything else is the real object's

    def decompress(self, data):
        try:
            out = self.inner.decompress(data)
        except zlib.error:
            self.log.append(None)
            raise
        self.log.append(bytes(out))
        return out


def user_factory(kind, opts, how):
    """a factory as an application writes it: a subclass of the REAL VNCDoToolFactory (VNCDoCLIFactory for the CLI client) that
    records connection events, with the options given as class attributes of the subclass (how='class') or set on the
    instance after construction, as api.connect and vncdo do (how='instance')"""
    from vncdotool import command
    base = command.VNCDoCLIFactory if kind == "cli" else vclient.VNCDoToolFactory
    ns = {"clientConnectionMade": lambda self, p: self.events.append(("cb", "made")),
          "clientConnectionFailed": lambda self, p, reason: self.events.append(("cb", "connfailed")),
          "clientConnectionLost": lambda self, p, reason: None, "events": None}
    if how == "class":
        ns.update(opts)
    f = type("UserFactory", (base,), ns)()
    if how == "instance":
        for k, v in opts.items():
            setattr(f, k, v)
    return f


def new_client(kind="lib", factory="standin", **opts):
    trace = []
    c = KINDS[kind]()
    c.transport = FakeTransport(trace)
    c.factory = RecFac(**opts) if factory == "standin" or kind == "base" else user_factory(kind, opts, factory)
    c.factory.events = trace
    zlog = []
    c._zlib_stream = ZLog(c._zlib_stream, zlog)
    return c, trace, zlog


def auth_response_of(c, kind, opts):
    """the VNC-auth response a correct client sends for the challenge this client received (reference DES)"""
    ch = getattr(c, "_challenge", None)
    if ch is None:
        return b""
    pw = opts.get("password")
    if pw is None:
        if kind != "cli":
            return b""
        pw = PROMPT_PW
    try:
        return des_response(pw, bytes(ch))
    except UnicodeEncodeError:
        return b""


def toks(trace_slice):
    out = []
    for t in trace_slice:
        if t[0] == "write":
            out.append("w:" + (hx(t[1]) or "-"))
        elif t[0] == "close":
            out.append("close")
        elif t[0] == "cb":
            out.append(t[1])
    return out


def feed_impl(c, trace, chunks, budget=10.0):
    """dataReceived per chunk; returns per-chunk token lists; an exception ends the session (transport rule)."""
    per = []
    for ch in chunks:
        n0 = len(trace)
        exc = None
        try:
            with Budget(budget):
                c.dataReceived(bytes(ch))
        except BaseException as e:  # noqa
            exc = exc_class(e)
        t = toks(trace[n0:])
        if exc:
            t.append("raise:" + exc)
        per.append(t)
        if exc:
            break
    return per


def until_close(tokens):
    out = []
    for t in tokens:
        out.append(t)
        if t == "close" or t.startswith("raise:"):
            break
    return out


def cfg_line(kind, opts, authresp=b"", ardreply=b""):
    F = vclient.VNCDoToolFactory
    g = lambda k: opts.get(k, getattr(F, k))
    haspw = opts.get("password", None) is not None
    enc = opts.get("encoding", int(vclient.VNCDoToolClient.encoding))
    return "rfb-new %s %d %d %d %d %d %d %d %d %s %s" % (
        kind, haspw, bool(g("shared")), enc, bool(g("pseudocursor")), bool(g("nocursor")), bool(g("pseudodesktop")),
        bool(g("last_rect")), bool(g("qemu_extended_key")), hx(authresp) or "-", hx(ardreply or ARD_TOKEN))


def model_lines(kind, opts, zlog, chunks, authresp=b"", ardreply=b""):
    lines = []
    for z in zlog:
        lines.append("rfb-z " + ("err" if z is None else (hx(z) or "-")))
    lines.append(cfg_line("lib" if kind == "vmware" else kind, opts, authresp, ardreply))
    op = "rfb-vmrecv " if kind == "vmware" else "rfb-recv "
    for ch in chunks:
        lines.append(op + (hx(ch) or "-"))
    return lines


def parse_model(outs, nz, nchunks):
    """model outputs for the rfb-recv lines -> per-chunk token lists"""
    per = []
    for line in outs[nz + 1: nz + 1 + nchunks]:
        p = line.split(" ")
        per.append([] if p[1:] == ["-"] else p[1:])
    return per


# ----------------------------------------------------------------------------- pixel formats (RFC 6143 7.4)

def pixel_bytes(pf, rgb):
    """the bytes of one pixel of colour rgb (each 0..255 scaled to the channel's max) in pixel format pf"""
    r, g, b = rgb
    v = ((r * pf.redmax // 255) << pf.redshift) | ((g * pf.greenmax // 255) << pf.greenshift) | ((b * pf.bluemax // 255) << pf.blueshift)
    return v.to_bytes(pf.bypp, "big" if pf.bigendian else "little")


def shown(pf, rgb):
    """what an exact client shows for that pixel: channel value scaled back to 0..255 (v*255 // max)"""
    r, g, b = rgb
    return (r * pf.redmax // 255 * 255 // pf.redmax, g * pf.greenmax // 255 * 255 // pf.greenmax, b * pf.bluemax // 255 * 255 // pf.bluemax)


def cpixel_bytes(pf, rgb):
    """ZRLE CPIXEL (RFC 6143 7.7.5): 3 bytes when bpp=32, depth<=24 and the colour fits the low 3 bytes"""
    p = pixel_bytes(pf, rgb)
    if pf.bpp == 32 and pf.depth <= 24:
        return p[1:] if pf.bigendian else p[:3]
    return p


# ----------------------------------------------------------------------------- the encoder

class Rect:
    """one rectangle of an update: wire bytes (header + body) and what it means"""

    def __init__(self, x, y, w, h, enc, body=b"", paint=None, kind=None, zraw=None):
        self.x, self.y, self.w, self.h, self.enc = x, y, w, h, enc
        self.body = body          # bytes after the 12-byte header (ZRLE: filled in by Session.update with the stream's compressor)
        self.paint = paint or []  # list of (x, y, w, h, pixels) in paint order; pixels = list of rgb, row-major
        self.kind = kind or str(enc)
        self.zraw = zraw          # ZRLE: the uncompressed tile data

    def header(self):
        return struct.pack("!HHHHi", self.x, self.y, self.w, self.h, self.enc)


def rand_rgb(r, palette=None):
    if palette and r.random() < .8:
        return r.choice(palette)
    return (r.choice([0, 255, 128, 8, 7, 248]) if r.random() < .4 else r.randrange(256),
            r.choice([0, 255, 128, 4, 3, 252]) if r.random() < .4 else r.randrange(256),
            r.choice([0, 255, 128, 8, 7, 248]) if r.random() < .4 else r.randrange(256))


def enc_raw(r, pf, x, y, w, h):
    px = [rand_rgb(r) for _ in range(w * h)]
    return Rect(x, y, w, h, E_RAW, b"".join(pixel_bytes(pf, p) for p in px), [(x, y, w, h, px)], "raw")


def enc_copy(r, pf, x, y, w, h):
    sx, sy = r.randrange(0, 300), r.randrange(0, 300)
    rc = Rect(x, y, w, h, E_COPY, struct.pack("!HH", sx, sy), [], "copyrect")
    rc.copy = (sx, sy, x, y, w, h)
    return rc


def _subrects(r, w, h, n, maxdim):
    out = []
    for _ in range(n):
        if w == 0 or h == 0:
            break
        sx, sy = r.randrange(w), r.randrange(h)
        sw, sh = r.randint(1, min(maxdim, w - sx)), r.randint(1, min(maxdim, h - sy))
        out.append((sx, sy, sw, sh))
    return out


def enc_rre(r, pf, x, y, w, h, corre=False):
    bg = rand_rgb(r)
    n = r.choice([0, 1, 2, 5]) if w and h else 0
    subs = [(rand_rgb(r),) + s for s in _subrects(r, w, h, n, 255 if corre else 65535)]
    if corre and (w > 255 or h > 255):
        subs = [s for s in subs if s[1] < 256 and s[2] < 256]
    body = struct.pack("!I", len(subs)) + pixel_bytes(pf, bg)
    paint = [(x, y, w, h, [bg] * (w * h))]
    for col, sx, sy, sw, sh in subs:
        body += pixel_bytes(pf, col) + (struct.pack("!BBBB", sx, sy, sw, sh) if corre else struct.pack("!HHHH", sx, sy, sw, sh))
        paint.append((x + sx, y + sy, sw, sh, [col] * (sw * sh)))
    return Rect(x, y, w, h, E_CORRE if corre else E_RRE, body, paint, "corre" if corre else "rre")


def enc_hextile(r, pf, x, y, w, h):
    body = b""
    paint = []
    bg = fg = None
    fg_valid = False
    kinds = set()
    ty = y
    while ty < y + h:
        th = min(16, y + h - ty)
        tx = x
        while True:
            tw = min(16, x + w - tx)
            k = r.random()
            if k < .2 or w == 0:
                px = [rand_rgb(r) for _ in range(tw * th)]
                body += bytes([1]) + b"".join(pixel_bytes(pf, p) for p in px)
                paint.append((tx, ty, tw, th, px))
                kinds.add("raw")
                # RFC: after a raw tile background and foreground are undefined
                bg = fg = None
                fg_valid = False
            else:
                flags = 0
                blk = b""
                if bg is None or r.random() < .4:
                    bg = rand_rgb(r)
                    flags |= 2
                    blk += pixel_bytes(pf, bg)
                nsub = r.choice([0, 0, 1, 2, 6]) if tw and th else 0
                coloured = nsub and r.random() < .4
                if nsub and not coloured:
                    if not fg_valid or r.random() < .5:
                        fg = rand_rgb(r)
                        flags |= 4
                        blk += pixel_bytes(pf, fg)
                        fg_valid = True
                elif r.random() < .15:
                    # a tile may specify a foreground without using it
                    fg = rand_rgb(r)
                    flags |= 4
                    blk += pixel_bytes(pf, fg)
                    fg_valid = True
                paint.append((tx, ty, tw, th, [bg] * (tw * th)))
                if nsub:
                    subs = _subrects(r, tw, th, nsub, 16)
                    flags |= 8
                    blk += bytes([len(subs)])
                    if coloured:
                        flags |= 16
                    for sx, sy, sw, sh in subs:
                        col = rand_rgb(r) if coloured else fg
                        if coloured:
                            blk += pixel_bytes(pf, col)
                        blk += bytes([(sx << 4) | sy, ((sw - 1) << 4) | (sh - 1)])
                        paint.append((tx + sx, ty + sy, sw, sh, [col] * (sw * sh)))
                    if coloured:
                        fg_valid = False     # foreground undefined after a coloured tile
                    kinds.add("coloured" if coloured else "fgsub")
                else:
                    kinds.add("bgonly" if flags else "same")
                body += bytes([flags]) + blk
            tx += 16
            if tx >= x + w:
                break
        ty += 16
    rc = Rect(x, y, w, h, E_HEXTILE, body, paint, "hextile")
    rc.sub = kinds
    return rc


def _pack_indices(idx, tw, th, bits):
    out = bytearray()
    for row in range(th):
        acc = 0
        n = 0
        for i in idx[row * tw:(row + 1) * tw]:
            acc = (acc << bits) | i
            n += bits
            if n == 8:
                out.append(acc)
                acc = n = 0
        if n:
            out.append(acc << (8 - n))
    return bytes(out)


def _runlen(n):
    n -= 1
    out = bytearray()
    while n >= 255:
        out.append(255)
        n -= 255
    out.append(n)
    return bytes(out)


def enc_zrle(r, pf, x, y, w, h, force_palette=None):
    """force_palette=n: every tile is a packed-palette tile of n colours (corpus cases)"""
    raw = b""
    paint = []
    kinds = set()
    ty = y
    while ty < y + h:
        th = min(64, y + h - ty)
        tx = x
        while tx < x + w:
            tw = min(64, x + w - tx)
            n = tw * th
            k = r.random() if force_palette is None else .4
            if k < .15:
                px = [rand_rgb(r) for _ in range(n)]
                raw += bytes([0]) + b"".join(cpixel_bytes(pf, p) for p in px)
                kinds.add("zraw")
            elif k < .3:
                c = rand_rgb(r)
                px = [c] * n
                raw += bytes([1]) + cpixel_bytes(pf, c)
                kinds.add("zsolid")
            elif k < .55:
                ps = r.choice([2, 2, 3, 4, 5, 16]) if force_palette is None else force_palette
                pal = [rand_rgb(r) for _ in range(ps)]
                idx = [r.randrange(ps) for _ in range(n)]
                bits = 1 if ps == 2 else 2 if ps <= 4 else 4
                px = [pal[i] for i in idx]
                raw += bytes([ps]) + b"".join(cpixel_bytes(pf, p) for p in pal) + _pack_indices(idx, tw, th, bits)
                kinds.add("zpacked%d" % bits)
            elif k < .78:
                px = []
                blk = b""
                while len(px) < n:
                    c = rand_rgb(r)
                    run = min(n - len(px), r.choice([1, 1, 2, 3, 17, 255, 256, 257, 510, 511, 512, 4096]))
                    blk += cpixel_bytes(pf, c) + _runlen(run)
                    px += [c] * run
                raw += bytes([128]) + blk
                kinds.add("zrle")
            else:
                ps = r.choice([2, 3, 16, 17, 127])
                pal = [rand_rgb(r) for _ in range(ps)]
                px = []
                blk = b""
                while len(px) < n:
                    i = r.randrange(ps)
                    run = min(n - len(px), r.choice([1, 1, 1, 2, 3, 255, 256, 257, 511, 600]))
                    if run == 1:
                        blk += bytes([i])
                    else:
                        blk += bytes([i | 128]) + _runlen(run)
                    px += [pal[i]] * run
                raw += bytes([128 + ps]) + b"".join(cpixel_bytes(pf, p) for p in pal) + blk
                kinds.add("zprle")
            paint.append((tx, ty, tw, th, px))
            tx += 64
        ty += 64
    rc = Rect(x, y, w, h, E_ZRLE, b"", paint, "zrle", zraw=raw)
    rc.sub = kinds
    return rc


def enc_cursor(r, pf, x, y, w, h):
    px = [rand_rgb(r) for _ in range(w * h)]
    mask = bytes(r.randrange(256) for _ in range(((w + 7) // 8) * h))
    rc = Rect(x, y, w, h, E_CURSOR, b"".join(pixel_bytes(pf, p) for p in px) + mask, [], "cursor")
    rc.cursor = (px, mask)
    return rc


def enc_desktop(w, h):
    return Rect(0, 0, w, h, E_DESKTOP, b"", [], "desktop")


def enc_qemu():
    return Rect(0, 0, 0, 0, E_QEMU, b"", [], "qemu")


ENCODERS = {"raw": enc_raw, "copyrect": enc_copy, "rre": enc_rre, "corre": lambda r, pf, x, y, w, h: enc_rre(r, pf, x, y, w, h, True),
            "hextile": enc_hextile, "zrle": enc_zrle, "cursor": enc_cursor}

SIZES = [0, 1, 2, 3, 7, 8, 15, 16, 17, 31, 33, 63, 64, 65, 130]


def rand_rect(r, pf, kinds=None, maxarea=9000, maxpos=200):
    kind = r.choice(kinds or ["raw", "copyrect", "rre", "corre", "hextile", "zrle", "cursor"])
    while True:
        w = r.choice(SIZES) if r.random() < .8 else r.randint(1, 90)
        h = r.choice(SIZES) if r.random() < .8 else r.randint(1, 90)
        if w * h <= maxarea:
            break
    if kind == "cursor":
        w, h = min(w, 40), min(h, 40)
    x = r.choice([0, 0, 1, 5, 16, 64]) if r.random() < .6 else r.randrange(maxpos)
    y = r.choice([0, 0, 1, 5, 16, 64]) if r.random() < .6 else r.randrange(maxpos)
    return ENCODERS[kind](r, pf, x, y, w, h)


class Session:
    """Server side of one connection: builds the byte stream message by message."""

    def __init__(self, pf=None):
        self.pf = pf or vclient.RGB32
        self.z = zlib.compressobj()
        self.r_zsplit = None

    def update(self, rects, lastrect=False, count=None, r=None):
        out = b""
        n = len(rects) + (1 if lastrect else 0)
        if count is None:
            count = n if not lastrect else (0xFFFF if (r and r.random() < .5) else n)
        out += struct.pack("!BxH", 0, count)
        for rc in rects:
            out += rc.header()
            if rc.enc == E_ZRLE:
                comp = self.z.compress(rc.zraw) + self.z.flush(zlib.Z_SYNC_FLUSH)
                out += struct.pack("!I", len(comp)) + comp
            else:
                out += rc.body
        if lastrect:
            out += struct.pack("!HHHHi", 0, 0, 0, 0, E_LASTRECT)
        return out

    @staticmethod
    def bell():
        return b"\x02"

    @staticmethod
    def cuttext(t: bytes):
        return struct.pack("!BxxxI", 3, len(t)) + t

    @staticmethod
    def colourmap(first, cols):
        return struct.pack("!BxHH", 1, first, len(cols)) + b"".join(struct.pack("!HHH", *c) for c in cols)


def server_init(w, h, pf, name=b"desk"):
    return struct.pack("!HH", w, h) + pf.to_bytes() + struct.pack("!I", len(name)) + name


# ----------------------------------------------------------------------------- reference painter (the spec's canvas)

class Canvas:
    """The client's screen according to the property: everything sent, latest write wins, never-sent pixels black."""

    def __init__(self):
        self.w = self.h = None
        self.px = {}

    def resize(self, w, h):
        self.w, self.h = w, h
        self.px = {k: v for k, v in self.px.items() if k[0] < w and k[1] < h}

    def paint(self, x, y, w, h, pixels, pf):
        if w * h == 0:
            return
        if self.w is None:
            self.w, self.h = x + w, y + h
        else:
            self.w, self.h = max(self.w, x + w), max(self.h, y + h)
        i = 0
        for yy in range(y, y + h):
            for xx in range(x, x + w):
                self.px[(xx, yy)] = shown(pf, pixels[i])
                i += 1

    def rgb(self):
        if self.w is None:
            return None
        out = bytearray()
        for yy in range(self.h):
            for xx in range(self.w):
                out += bytes(self.px.get((xx, yy), (0, 0, 0)))
        return (self.w, self.h, bytes(out))


def screen_rgb(c):
    s = getattr(c, "screen", None)
    if s is None:
        return None
    return (s.size[0], s.size[1], s.tobytes())


# ----------------------------------------------------------------------------- whole sessions

def des_response(password: str, challenge: bytes) -> bytes:
    """RFC 6143 7.2.2 reference: DES-ECB of the challenge, key = first 8 password bytes, NUL padded, bits mirrored."""
    from Cryptodome.Cipher import DES
    key = (password.encode("ascii") + bytes(8))[:8]
    key = bytes(int("{:08b}".format(k)[::-1], 2) for k in key)
    return DES.new(key, DES.MODE_ECB).encrypt(challenge)


ACCEPTED_PF = list(vclient.PF2IM)
ODD_PF = [rfb.PixelFormat(32, 24, True, True, 255, 255, 255, 16, 8, 0), rfb.PixelFormat(8, 8, False, True, 7, 7, 3, 0, 3, 6),
          rfb.PixelFormat(16, 15, False, True, 31, 31, 31, 10, 5, 0), rfb.PixelFormat(32, 32, False, True, 255, 255, 255, 0, 8, 16),
          rfb.PixelFormat(32, 24, False, False, 255, 255, 255, 0, 8, 16)]


def gen_handshake(r, kind, opts, ok=True):
    """returns (list of stream parts, pf in force afterwards, version_server, authresp, description)"""
    ver = r.choice([(3, 3), (3, 7), (3, 8), (3, 8), (3, 889), (4, 0), (4, 1), (5, 0), (3, 5), (3, 6), (3, 9), (9, 999)])
    banner = b"RFB %03d.%03d\n" % ver
    eff = max(v for v in [(3, 3), (3, 7), (3, 8)] if v <= ver)   # RFC: highest of 3.3/3.7/3.8 not above the server's
    parts = [banner]
    authresp = b""
    pw = opts.get("password")
    use_vnc = pw is not None and r.random() < .6
    chal = bytes(r.randrange(256) for _ in range(16))
    if eff == (3, 3):
        if use_vnc:
            parts += [struct.pack("!I", 2), chal, struct.pack("!I", 0)]
            authresp = des_response(pw, chal)
        else:
            parts += [struct.pack("!I", 1)]
    else:
        use_dh = (not use_vnc) and r.random() < .15
        types = [2] if use_vnc else ([30] if use_dh else [1])
        extra = r.sample([5, 16, 18, 19, 22, 129], r.randint(0, 3))
        types = types + extra
        r.shuffle(types)
        parts += [bytes([len(types)]), bytes(types)]
        if use_dh:
            # Apple Remote Desktop (Diffie-Hellman, type 30): generator, key length, modulus, server key; then the result
            klen = r.choice([1, 2, 8, 16, 128])
            mod = (r.getrandbits(8 * klen) | 1 | (1 << (8 * klen - 1))).to_bytes(klen, "big")
            skey = r.getrandbits(8 * klen).to_bytes(klen, "big")
            parts += [struct.pack("!HH", r.choice([2, 3, 5]), klen), mod, skey, struct.pack("!I", 0)]
        elif use_vnc:
            parts += [chal, struct.pack("!I", 0)]
            authresp = des_response(pw, chal)
        elif eff == (3, 8):
            parts += [struct.pack("!I", 0)]
    native = r.choice(ACCEPTED_PF) if r.random() < .75 else r.choice(ODD_PF)
    w, h = r.choice([1, 8, 64, 100, 800]), r.choice([1, 8, 48, 100, 600])
    name = bytes(r.randrange(32, 127) for _ in range(r.choice([0, 1, 4, 30])))
    parts += [server_init(w, h, native, name)]
    if kind == "base":
        pf = native
    elif native in vclient.PF2IM:
        pf = native
    else:
        pf = vclient.BGR16 if ver == (3, 889) else vclient.RGB32
    return parts, pf, ver, authresp, (w, h)


def gen_messages(r, sess, nmsg, kinds=None, maxarea=9000, lastrect_ok=True):
    """a list of (bytes, meta) server messages; meta = ('update', rects, lastrect) | ('bell',) | ..."""
    out = []
    for _ in range(nmsg):
        k = r.random()
        if k < .7:
            rects = []
            for _ in range(r.choice([0, 1, 1, 2, 3, 5])):
                j = r.random()
                if j < .06:
                    rects.append(enc_desktop(r.choice([1, 16, 100, 300]), r.choice([1, 16, 100, 300])))
                elif j < .1:
                    rects.append(enc_qemu())
                else:
                    rects.append(rand_rect(r, sess.pf, kinds, maxarea))
            lr = lastrect_ok and r.random() < .3
            out.append((sess.update(rects, lr, r=r), ("update", rects, lr)))
        elif k < .8:
            out.append((sess.bell(), ("bell",)))
        elif k < .9:
            t = bytes(r.randrange(256) for _ in range(r.choice([0, 1, 5, 300])))
            out.append((sess.cuttext(t), ("cut", t)))
        else:
            cols = [(r.randrange(65536), r.randrange(65536), r.randrange(65536)) for _ in range(r.choice([0, 1, 3]))]
            out.append((sess.colourmap(r.randrange(256), cols), ("cmap", cols)))
    return out


def chunkings(r, stream: bytes, boundaries, n_random=2):
    """families of chunkings of one stream: whole, byte-wise (short streams), field boundaries +-1, random, glued"""
    n = len(stream)
    out = [[stream]]
    if n <= 600:
        out.append([stream[i:i + 1] for i in range(n)])
    cuts = sorted({min(n, max(0, b + d)) for b in boundaries for d in (-1, 0, 1)} - {0, n})
    if cuts:
        out.append([stream[a:b] for a, b in zip([0] + cuts, cuts + [n])])
    for _ in range(n_random):
        k = r.randint(1, min(12, max(1, n - 1)))
        cs = sorted(r.sample(range(1, n), min(k, n - 1))) if n > 1 else []
        out.append([stream[a:b] for a, b in zip([0] + cs, cs + [n])])
    # one chunking that glues several messages: cut only at every third boundary
    bs = sorted(set(b for b in boundaries if 0 < b < n))[::3]
    if bs:
        out.append([stream[a:b] for a, b in zip([0] + bs, bs + [n])])
    # drop empty chunks (a transport never delivers one)
    return [[c for c in ch if c] for ch in out]
