"""In-memory logging proxy pair (the real VNCLoggingServerFactory / portforward classes, only reactor.connectTCP patched)
and viewer-side session generators."""
from __future__ import annotations
import struct
from unittest import mock
from core import *  # noqa
from vncdotool import loggingproxy as lp
from twisted.internet import reactor

CLOCK = [1000.0]
# whatever way loggingproxy imports the clock: callers inside that module see the virtual clock (core.HOOKS)
HOOKS["vclock"] = lambda: CLOCK[0]


class Proxy:
    def __init__(self, password_required=False, t0_ticks=10_000_000, fac=None, outdir=None):
        """fac: serve another viewer with the SAME factory (the proxy accepts any number of viewers); outdir: `vnclog --forever DIR`,
        one script file per connection (then self.rec stays empty: read the files)"""
        self.rec = []
        self.fail_after = None
        self.set_time(t0_ticks)
        if fac is None:
            fac = lp.VNCLoggingServerFactory("h", 1)
            fac.password_required = password_required
            outer = self

            class Out:
                def write(self, s):
                    if outer.fail_after is not None and len(outer.rec) >= outer.fail_after:
                        raise OSError(28, "No space left on device")       # the script's medium fails in mid-session
                    outer.rec.append(s)
            fac.output = outdir if outdir is not None else Out()
        self.fac = fac
        captured = {}
        with mock.patch.object(reactor, "connectTCP", lambda h, p, f: captured.setdefault("f", f)):
            self.srv = fac.buildProtocol(None)         # viewer side (VNCLoggingServerProxy)
            self.to_viewer = []
            self.srv.transport = FakeTransport(self.to_viewer, "")
            self.srv.connectionMade()
        self.cl = captured["f"].buildProtocol(None)     # server side (VNCLoggingClientProxy)
        self.to_server = []
        self.cl.transport = FakeTransport(self.to_server, "")
        self.cl.connectionMade()

    @staticmethod
    def set_time(ticks):
        CLOCK[0] = ticks / 10000.0      # correctly rounded float of k/10000

    def viewer_sends(self, data, budget=5.0):
        self._v0 = len(self.to_viewer)
        n0 = len(self.to_server)
        r0 = len(self.rec)
        exc = None
        try:
            with Budget(budget):
                self.srv.dataReceived(bytes(data))
        except BaseException as e:  # noqa
            exc = exc_class(e)
        fwd = b"".join(t[1] for t in self.to_server[n0:] if t[0] == "write")
        return fwd, self.rec[r0:], exc

    def foreign(self, direction):
        """bytes the proxy wrote on the leg the current chunk did NOT come from (it must originate nothing)"""
        if direction == "v":
            return b"".join(t[1] for t in self.to_viewer[getattr(self, "_v0", 0):] if t[0] == "write")
        return b"".join(t[1] for t in self.to_server[getattr(self, "_s0", 0):] if t[0] == "write")

    def server_sends(self, data, budget=5.0):
        self._s0 = len(self.to_server)
        n0 = len(self.to_viewer)
        exc = None
        try:
            with Budget(budget):
                self.cl.dataReceived(bytes(data))
        except BaseException as e:  # noqa
            exc = exc_class(e)
        fwd = b"".join(t[1] for t in self.to_viewer[n0:] if t[0] == "write")
        return fwd, exc


def viewer_handshake(r, password_required=False, odd=False):
    """(bytes, description) of what a viewer sends before its first message, for each banner x security combination.
    odd: a version line the recorder does not know (Apple's 003.889, 004.000, ...): the relay must not care"""
    ver = r.choice([b"003", b"003", b"005", b"007", b"008", b"008"])
    if odd:
        ver = r.choice([b"889", b"006", b"009"])
        banner = r.choice([b"RFB 003." + ver + b"\n", b"RFB 004.000\n", b"RFB 003.8\n\n\n"])
        t = r.choice([1, 2, 16])
        body = bytes([t]) + (bytes(r.randrange(256) for _ in range(16)) if t == 2 else b"")
        return banner + body + bytes([r.randrange(2)]), "odd version " + banner.decode().strip()
    banner = b"RFB 003." + ver + b"\n"
    if ver in (b"003", b"005"):
        sec = b""
        body = bytes(r.randrange(256) for _ in range(16)) if password_required else b""
        desc = "3.3" + ("+vncauth" if password_required else "")
    else:
        t = r.choice([1, 2, 2, 16])
        body = bytes([t]) + (bytes(r.randrange(256) for _ in range(16)) if t == 2 else b"")
        desc = "3.%s sec=%d" % (ver.decode()[-1], t)
    return banner + body + bytes([r.randrange(2)]), desc


KEYSYMS = [0x61, 0x41, 0x20, 0x23, 0x27, 0x22, 0x5c, 0x2d, 0x7e, 0x09, 0x0a, 0x7f, 0xa0, 0xe9, 0x20ac, 0xff0d, 0xffe1, 0xffe3, 0xffff, 0xff08, 0x1F600, 0x10FFFF]


def gen_viewer_messages(r, n, keys=None, allow_unrecordable=False, kinds=None):
    """list of (bytes, meta): meta = ('key', keysym, down) | ('ptr', x, y, mask) | ('other',)"""
    out = []
    kinds = kinds or ["key", "key", "key", "ptr", "ptr", "spf", "se", "fbur", "cut", "qemu"]
    for _ in range(n):
        k = r.choice(kinds)
        if k == "key":
            ks = r.choice(keys or KEYSYMS) if r.random() < .6 else r.choice([r.randrange(32, 127), r.randrange(0x110000), r.choice(list(lp.REVERSE_MAP))])
            if allow_unrecordable and r.random() < .1:
                ks = r.choice([0x01000041, 0x110000, 0xFFFFFFFF])
            if 0xD800 <= ks <= 0xDFFF:
                ks = 0x61
            down = r.random() < .5
            out.append((struct.pack("!BBxxI", 4, down if r.random() < .8 else r.choice([2, 255]) if down else 0, ks), ("key", ks, down)))
        elif k == "ptr":
            x, y, m = r.choice([0, 1, 10, 65535]), r.choice([0, 2, 20, 65535]), r.choice([0, 0, 1, 2, 4, 5, 128, 255])
            out.append((struct.pack("!BBHH", 5, m, x, y), ("ptr", x, y, m)))
        elif k == "spf":
            out.append((struct.pack("!Bxxx", 0) + bytes(r.randrange(256) for _ in range(16)), ("other",)))
        elif k == "se":
            n_ = r.choice([0, 1, 2, 5, 300])
            out.append((struct.pack("!BxH", 2, n_) + b"".join(struct.pack("!i", r.choice([0, 1, 16, -223, -239, 0x574D5664 - (1 << 32) if False else -1])) for _ in range(n_)), ("other",)))
        elif k == "fbur":
            out.append((struct.pack("!BBHHHH", 3, r.randrange(2), 0, 0, r.randrange(65536), r.randrange(65536)), ("other",)))
        elif k == "cut":
            t = r.randbytes(r.choice([0, 0, 1, 5, 5000, 5000, 70000, 200000, 262145, 300000]))
            out.append((struct.pack("!BxxxI", 6, len(t)) + t, ("other",)))
        elif k == "qemu":
            ks = r.choice(keys or KEYSYMS)
            if 0xD800 <= ks <= 0xDFFF:
                ks = 0x62
            down = r.random() < .5
            out.append((struct.pack("!BBHII", 255, 0, down, ks, r.randrange(256)), ("key", ks, down)))
    return out
