"""Drivers of the real implementation (in-process, in-memory transport)."""
from __future__ import annotations
import struct
from core import *  # noqa


class Fac:
    """Stand-in for VNCDoToolFactory with the same option attributes (defaults copied from the live class)."""

    def __init__(self, **kw):
        F = vclient.VNCDoToolFactory
        for opt in ("username", "password", "shared", "pseudocursor", "nocursor", "pseudodesktop",
                    "qemu_extended_key", "last_rect", "force_caps"):
            setattr(self, opt, getattr(F, opt))
        self.events = []
        for k, v in kw.items():
            setattr(self, k, v)

    def clientConnectionMade(self, p):
        self.events.append(("made",))

    def clientConnectionFailed(self, p, reason):
        self.events.append(("failed", type(getattr(reason, "value", reason)).__name__))

    def clientConnectionLost(self, p, reason):
        self.events.append(("lost",))


def mk_client(cls=None, **opts):
    cls = cls or vclient.VNCDoToolClient
    trace = []
    c = cls()
    c.transport = FakeTransport(trace)
    c.factory = Fac(**opts)
    c.factory.events = trace  # factory events interleave with writes in one trace
    return c, trace


def pf_bytes(pf):
    return pf.to_bytes()


RGB32 = vclient.RGB32


def server_init(w=8, h=8, pf=None, name=b"x"):
    pf = pf or RGB32
    return struct.pack("!HH", w, h) + pf.to_bytes() + struct.pack("!I", len(name)) + name


def handshake33(w=8, h=8, pf=None, name=b"x"):
    return b"RFB 003.003\n" + struct.pack("!I", 1) + server_init(w, h, pf, name)


def connect(cls=None, w=8, h=8, pf=None, **opts):
    """A client that completed a 3.3 / no-auth handshake; the trace is cleared afterwards."""
    c, trace = mk_client(cls, **opts)
    with Budget(5):
        c.dataReceived(handshake33(w, h, pf))
    del trace[:]
    return c, trace


def writes(trace):
    return [t[1] for t in trace if t[0] == "write"]
