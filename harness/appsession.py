"""Sessions of vncdo against a scripted server with a virtual clock: generator, implementation run, model lines."""
from __future__ import annotations
import os, shutil, tempfile
from fractions import Fraction
from appgen import *  # noqa

RMS = {"0": (0, 1), "1": (1, 1), "2.5": (5, 2), "10": (10, 1), "0.5": (1, 2), "40": (40, 1)}
PAUSES = ["0", "0.25", "0.5", "1", "2", "3"]
DELAYS = [0, 125, 500]
WARPS = [1.0, 0.5, 2.0, 4.0]


class Workdir:
    def __enter__(self):
        self.dir = tempfile.mkdtemp(prefix="verif-app-")
        self.old = os.getcwd()
        os.chdir(self.dir)
        return self

    def __exit__(self, *a):
        os.chdir(self.old)
        shutil.rmtree(self.dir, ignore_errors=True)


def make_image(name, w, h, pixels):
    im = Image.new("RGB", (w, h))
    im.putdata(pixels)
    im.save(name)
    return im


class Spec:
    """everything that defines one session"""

    def __init__(self, words, delay=0, warp=1.0, timeout=None, incremental=False, nocursor=False, force_caps=False, size=(16, 12), pf=None):
        self.words, self.delay, self.warp, self.timeout = words, delay, warp, timeout
        self.incremental, self.nocursor, self.force_caps = incremental, nocursor, force_caps
        self.size = size
        self.pf = pf or vclient.RGB32
        self.events = []        # ("recv", bytes) | ("fire",) | ("lose", clean) | ("connectfailed",)
        self.images = {}        # file -> (w, h, pixels) expected images (written as PNG before the run)


def handshake_bytes(spec):
    ver = getattr(spec, "version", (3, 8))
    init = server_init(spec.size[0], spec.size[1], spec.pf, b"desk")
    if ver == (3, 3):
        return b"RFB 003.003\n" + struct.pack("!I", 1) + init
    if ver == (3, 7):
        return b"RFB 003.007\n" + bytes([1, 1]) + init
    return b"RFB %03d.%03d\n" % ver + bytes([1, 1]) + struct.pack("!I", 0) + init


def run_impl(spec):
    """returns dict: tokens per event, zlog, status info, the Vncdo object's summary"""
    for name, (w, h, px) in spec.images.items():
        make_image(name, w, h, px)
    v = Vncdo(spec.words, delay=spec.delay, warp=spec.warp, timeout=spec.timeout, incremental=spec.incremental,
              nocursor=spec.nocursor, force_caps=spec.force_caps)
    res = {"events": [], "exit_code": v.exit_code, "error": v.error, "connects": len(v.connects)}
    try:
        if v.factory is None:
            return res
        started = False
        for ev in spec.events:
            if ev[0] == "connectfailed":
                v.connect_failed(ev[1] if len(ev) > 1 else "ConnectionRefusedError")
                res["events"].append(("connectfailed", []))
                st = v.status()
                res["events"][-1] = res["events"][-1] + ({"status": st[0], "stopped": st[1], "pending_stop": v.pending_stop(), "now": ticks(v.reactor.seconds())},)
                continue
            if not started:
                v.connect()
                started = True
            if ev[0] == "recv":
                res["events"].append(("recv", v.feed(ev[1])))
            elif ev[0] == "fire":
                calls = v.reactor.getDelayedCalls()
                if not calls:
                    res["events"].append(("fire-none", []))
                    continue
                nxt = min(calls, key=lambda c: c.getTime())
                name = getattr(nxt.func, "__name__", "")
                t, tk = v.fire()
                kind = "timeout" if name == "error" else ("stop" if name == "stop" else "timer")
                res["events"].append((kind, tk, t))
            elif ev[0] == "lose":
                res["events"].append(("lose-clean" if ev[1] else "lose-error", v.lose(ev[1])))
            st = v.status()
            res["events"][-1] = res["events"][-1] + ({"status": st[0], "stopped": st[1], "pending_stop": v.pending_stop(), "now": ticks(v.reactor.seconds())},)
        while v.reactor.getDelayedCalls() and v.reactor.stopped_at is None:
            v.fire()
        res["final_status"] = v.status()
        res["zlog"] = getattr(v, "zlog", [])
        res["screen"] = screen_rgb(v.proto) if v.proto else None
        res["saved"] = {f: open(f, "rb").read() for f in os.listdir(".") if f.startswith("cap")}
        return res
    finally:
        v.close()


def model_lines(spec, res):
    """the same session for the Lean driver (needs the implementation's zlib log)"""
    lines = ["app-reset"]
    for z in res.get("zlog", []):
        lines.append("rfb-z " + ("err" if z is None else (hx(z) or "-")))
    for name, (w, h, px) in spec.images.items():
        hist = Image.open(name).histogram()
        lines.append("app-img %s %d %d %s" % (name.encode().hex(), w, h, ",".join(map(str, hist))))
    used = set(spec.words)
    for wd in used:
        try:
            lines.append("app-pause %s %d" % (wd.encode().hex() or "-", ticks(float(wd) / spec.warp)))
        except ValueError:
            pass
        if wd in RMS:
            lines.append("app-rms %s %d %d" % (wd.encode().hex(), RMS[wd][0], RMS[wd][1]))
        if wd.isupper():
            lines.append("app-upper " + wd.encode().hex())
    opts = {"nocursor": spec.nocursor}
    lines.append(cfg_line("cli", opts))
    try:
        toks_ = getattr(spec, "cmdtoks", None) or cmd_tokens(spec.words, {}, spec.delay)
    except Exception:
        return None
    lines.append("app-new %d %d %d %s" % (ticks(spec.delay / 1000.0), spec.force_caps, spec.incremental, " ".join(toks_)))
    evmap = []
    for ev in res["events"]:
        kind = ev[0]
        if kind == "recv":
            pass
        evmap.append(kind)
    return lines


def model_event_lines(spec, res):
    """event lines aligned with res['events']; returns list of (line or None)"""
    out = []
    i = 0
    for ev, rev in zip(spec.events, res["events"]):
        kind = rev[0]
        if kind == "recv":
            out.append(["rfb-recv " + hx(ev[1])])
        elif kind == "timer":
            out.append(["app-fire"])
        elif kind == "timeout":
            out.append(["app-now %d" % rev[2], "app-exit timeout"])
        elif kind == "stop" or kind == "fire-none":
            out.append([])
        elif kind == "lose-clean":
            out.append(["app-now %d" % rev[-1]["now"], "app-exit lost-clean"])
        elif kind == "lose-error":
            out.append(["app-now %d" % rev[-1]["now"], "app-exit lost-error"])
        elif kind == "connectfailed":
            out.append(["app-now 0", "app-exit connectfailed"])
    return out


def compare_with_model(ctx, spec, res, name, inp):
    """queue the model lines; returns a closure that, given the driver output slice, reports disagreements"""
    head = model_lines(spec, res)
    if head is None:
        return [], None
    evl = model_event_lines(spec, res)
    lines = list(head)
    idx = []
    for group in evl:
        idx.append((len(lines), len(group)))
        lines += group

    def check(mout):
        for (off, k), rev in zip(idx, res["events"]):
            kind = rev[0]
            if kind == "recv":
                p = mout[off].split(" ")
                mt = [] if p[1:] == ["-"] else p[1:]
                if until_close_app(rev[1]) != until_close_app(mt):
                    a, b = rev[1], mt
                    j = next((i for i, (x, y) in enumerate(zip(a, b)) if x != y), min(len(a), len(b)))
                    ctx.disagree(name, {"input": inp, "event": "recv", "impl": a[max(0, j - 2):j + 3], "model": b[max(0, j - 2):j + 3]})
                    return
            elif kind == "timer":
                p = mout[off].split(" ")
                mt = [] if p[1:] == ["-"] else p[1:]
                if rev[1] != mt or p[0] != "t=%d" % rev[2]:
                    ctx.disagree(name, {"input": inp, "event": "timer", "impl": ["t=%d" % rev[2]] + rev[1][:6], "model": p[:7]})
                    return
            elif kind in ("timeout", "lose-clean", "lose-error", "connectfailed"):
                mo = mout[off + k - 1]
                st = rev[-1]
                want = "status=%s stop=%s" % (st["status"], st["stopped"] if st["stopped"] is not None else (st["pending_stop"] if st["pending_stop"] is not None else "none"))
                if mo != want:
                    ctx.disagree(name, {"input": inp, "event": kind, "impl": want, "model": mo})
                    return
    return lines, check


def until_close_app(tokens):
    out = []
    for t in tokens:
        out.append(t)
        if t.startswith("raise:"):
            break
    return out


# ----------------------------------------------------------------------------- sessions

def build_session(r, kinds=None, ncmd=None, want_match=None):
    size = (r.choice([8, 16, 24]), r.choice([8, 12]))
    spec = Spec([], delay=r.choice(DELAYS), warp=r.choice(WARPS), incremental=(r.random() < .45), nocursor=(r.random() < .4), size=size)
    spec.version = r.choice([(3, 8), (3, 8), (3, 8), (3, 3), (3, 7), (3, 889)])
    sess = Session(spec.pf)
    # expected images: some equal to a future screen, some different
    target_px = [rand_rgb(r) for _ in range(size[0] * size[1])]
    spec.images["e_match.png"] = (size[0], size[1], target_px)
    spec.images["e_other.png"] = (size[0], size[1], [rand_rgb(r) for _ in range(size[0] * size[1])])
    rw, rh = r.randint(1, size[0] - 1), r.randint(1, size[1] - 1)
    spec.images["e_small.png"] = (rw, rh, [target_px[y * size[0] + x] for y in range(rh) for x in range(rw)])
    kinds = kinds or ["key", "type", "move", "click", "mdown", "drag", "pause", "pause", "capture", "rcapture", "expect", "rexpect"]
    spec.words = gen_words(r, kinds, ncmd or r.randint(1, 10), ["e_match.png", "e_other.png", "e_small.png"], spec)
    if not spec.words:
        spec.words = ["key", "a"]
    spec.target_px = target_px
    spec.sess = sess
    return spec


def schedule(r, spec, max_events=60):
    """play the session: implementation decides what is pending; we interleave timer firings and server updates"""
    spec.events = [("recv", handshake_bytes(spec))]
    return spec


def drive(r, spec, respond="random", faults=None, max_steps=80):
    """run the implementation step by step, choosing the next event from what is pending; returns the result dict"""
    for name, (w, h, px) in spec.images.items():
        make_image(name, w, h, px)
    v = Vncdo(spec.words, delay=spec.delay, warp=spec.warp, timeout=spec.timeout, incremental=spec.incremental, nocursor=spec.nocursor, force_caps=spec.force_caps)
    res = {"events": [], "exit_code": v.exit_code, "error": v.error, "connects": len(v.connects)}
    spec.events = []
    try:
        if v.factory is None:
            return res
        v.connect()

        def note(kind, tk, *extra):
            st = v.status()
            res["events"].append((kind, tk) + extra + ({"status": st[0], "stopped": st[1], "pending_stop": v.pending_stop(), "now": ticks(v.reactor.seconds())},))
        hs = handshake_bytes(spec)
        cut = r.randrange(1, len(hs)) if r.random() < .3 else len(hs)
        if getattr(spec, "silent_in_handshake", False):
            # the server accepts the connection, sends a prefix of its handshake (possibly nothing) and then says nothing more
            cut = r.choice([0, 5, 12, 13, 14, 18, 20, len(hs) - 2])
            part = hs[:cut]
            if part:
                spec.events.append(("recv", part))
                note("recv", v.feed(part))
            while v.reactor.getDelayedCalls() and v.reactor.stopped_at is None:
                nxt = min(v.reactor.getDelayedCalls(), key=lambda c: c.getTime())
                name = getattr(nxt.func, "__name__", "")
                t, tk = v.fire()
                spec.events.append(("fire",))
                note("timeout" if name == "error" else ("stop" if name == "stop" else "timer"), tk, t)
            res["zlog"] = v.zlog
            res["screen"] = None
            res["final_status"] = v.status()
            res["finished"] = False
            res["stalled"] = False
            return res
        if getattr(spec, "lose_in_handshake", None) is not None:
            # the server accepts the connection, sends a prefix of its handshake (possibly nothing, possibly half a version line)
            # and then closes or resets the connection
            clean = bool(spec.lose_in_handshake)
            cuts = [0, 3, 11, 12, 13, 14, 18, 20, len(hs) - 2]
            drive.n_lih = getattr(drive, "n_lih", r.randrange(len(cuts))) + 1        # every cut in turn
            cut = cuts[drive.n_lih % len(cuts)]
            part = hs[:cut]
            if part:
                spec.events.append(("recv", part))
                note("recv", v.feed(part))
            if not v.proto.transport.closed or clean:
                spec.events.append(("lose", clean))
                note("lose-clean" if clean else "lose-error", v.lose(clean))
            while v.reactor.getDelayedCalls() and v.reactor.stopped_at is None:
                nxt = min(v.reactor.getDelayedCalls(), key=lambda c: c.getTime())
                name = getattr(nxt.func, "__name__", "")
                t, tk = v.fire()
                spec.events.append(("fire",))
                note("timeout" if name == "error" else ("stop" if name == "stop" else "timer"), tk, t)
            res["zlog"] = v.zlog
            res["screen"] = None
            res["final_status"] = v.status()
            res["finished"] = False
            res["stalled"] = False
            return res
        for part in (hs[:cut], hs[cut:]):
            if part:
                spec.events.append(("recv", part))
                note("recv", v.feed(part))
        spec.updates = []          # (rects, complete?) in the order sent
        faults = list(faults or [])     # [(after_step, kind)] kind in lose-clean / lose-error / unknown-msg / silent
        for step in range(max_steps):
            if v.reactor.stopped_at is not None:
                break                       # reactor.stop(): the process is over, nothing else can happen
            if faults and faults[0][0] <= step:
                _, kind = faults.pop(0)
                if kind in ("lose-clean", "lose-error"):
                    spec.events.append(("lose", kind == "lose-clean"))
                    note(kind, v.lose(kind == "lose-clean"))
                    break
                if kind == "unknown-encoding":
                    # a framebuffer update with a good rectangle and one whose encoding the client does not know, in one
                    # chunk (either order): the client aborts; nothing after the abort may count as progress of the script
                    good = enc_raw(r, spec.pf, 0, 0, min(4, spec.size[0]), min(3, spec.size[1]))
                    sizes_ = [(2, 2), (0, 0), (3, 0), (0, 3)]      # an empty rectangle in an unknown encoding is still unknown
                    drive.n_ue = getattr(drive, "n_ue", r.randrange(4)) + 1          # every size in turn
                    bw, bh = sizes_[drive.n_ue % 4]
                    bad = struct.pack("!HHHHi", 0, 0, bw, bh, r.choice([99, 7, 6, 50, -300, 0x7FFFFFFF])) + bytes(r.choice([0, 16, 40]))
                    body = (good.header() + good.body + bad) if r.random() < .5 else (bad + good.header() + good.body)
                    data = struct.pack("!BxH", 0, 2) + body
                    spec.events.append(("recv", data))
                    note("recv", v.feed(data))
                    res["aborted_on_unknown_encoding"] = bool(v.proto.transport.closed)
                    if v.proto.transport.closed:
                        spec.events.append(("lose", True))
                        note("lose-clean", v.lose(True))
                    break
                if kind == "unknown-msg":
                    spec.events.append(("recv", b"\x09"))
                    note("recv", v.feed(b"\x09"))
                    if v.proto.transport.closed:
                        spec.events.append(("lose", True))
                        note("lose-clean", v.lose(True))
                    break
                if kind == "silent":
                    # the server says nothing any more: only timers can fire
                    while v.reactor.getDelayedCalls() and v.reactor.stopped_at is None:
                        calls = v.reactor.getDelayedCalls()
                        nxt = min(calls, key=lambda c: c.getTime())
                        name = getattr(nxt.func, "__name__", "")
                        t, tk = v.fire()
                        spec.events.append(("fire",))
                        note("timeout" if name == "error" else ("stop" if name == "stop" else "timer"), tk, t)
                    break
            flat = [t for e in res["events"] for t in e[1]]
            if "close" in flat or any(t.startswith("chainfailed") or t.startswith("raise:") for t in flat):
                break
            calls = [c for c in v.reactor.getDelayedCalls()]
            waiting = v.proto.deferred is not None
            lw = getattr(spec, "lose_when_last_waits", None)
            if lw is not None and waiting and v.proto.screen is not None and ("start:%d" % (v.ncmds - 1)) in flat:
                # the LAST command of the script is waiting for its update, the client already holds a screen from an earlier
                # one - and now the server goes away
                spec.events.append(("lose", bool(lw)))
                note("lose-clean" if lw else "lose-error", v.lose(bool(lw)))
                break
            choices = []
            if calls:
                choices += ["fire", "fire"]
            if waiting or r.random() < getattr(spec, "unsolicited", .15):
                choices += ["update"]
            if not choices:
                break
            ch = r.choice(choices)
            if ch == "fire":
                nxt = min(calls, key=lambda c: c.getTime())
                name = getattr(nxt.func, "__name__", "")
                t, tk = v.fire()
                spec.events.append(("fire",))
                note("timeout" if name == "error" else ("stop" if name == "stop" else "timer"), tk, t)
            else:
                full = r.random() < .4
                if getattr(spec, "first_update_cursor_only", False) and not spec.updates:
                    rects = [enc_cursor(r, spec.pf, r.randrange(3), r.randrange(3), r.choice([1, 4, 9]), r.choice([1, 3]))]
                    msg = spec.sess.update(rects)
                elif full and r.random() < .6 and len(spec.target_px) == spec.size[0] * spec.size[1]:
                    rc = Rect(0, 0, spec.size[0], spec.size[1], E_RAW, b"".join(pixel_bytes(spec.pf, p) for p in spec.target_px),
                              [(0, 0, spec.size[0], spec.size[1], list(spec.target_px))], "raw")
                    msg = spec.sess.update([rc])
                    rects = [rc]
                elif getattr(spec, "resizes", False) and r.random() < .25:
                    nw, nh = r.choice([6, 10, 20, 30]), r.choice([6, 10, 16])
                    scr_ = getattr(v.proto, "screen", None)
                    if scr_ is not None and tuple(scr_.size) != tuple(spec.size) and r.random() < .5:
                        nw, nh = scr_.size          # the server announces exactly the size the client's image happens to have
                    rects = [enc_desktop(nw, nh)]
                    spec.size = (nw, nh)
                    if r.random() < .6:
                        # a resize is usually followed by the new content in the same update
                        _, more = gen_update(r, spec.sess, spec.size, kinds=["raw", "rre", "hextile"], full=(r.random() < .5))
                        more = [m for m in more]
                        rects += more
                    msg = spec.sess.update(rects)
                elif spec.nocursor and r.random() < .15:
                    # an update that carries nothing but a cursor shape (with --nocursor the shape is not drawn, but the
                    # update is an update like any other: it completes, and whoever waits is told)
                    rects = [enc_cursor(r, spec.pf, r.randrange(3), r.randrange(3), r.choice([1, 4, 9]), r.choice([1, 3]))]
                    msg = spec.sess.update(rects)
                elif r.random() < .06:
                    # an update whose rectangles are all empty (0x0, Wx0, 0xH raw): legal, and a completed update like any other
                    rects = [enc_raw(r, spec.pf, r.randrange(3), r.randrange(3), *r.choice([(0, 0), (3, 0), (0, 2)])) for _ in range(r.randint(1, 2))]
                    msg = spec.sess.update(rects)
                elif r.random() < .1:
                    # pixel data followed by the QEMU extended-key pseudo-rectangle (the server's acknowledgement): an update like
                    # any other - it completes and is committed with the areas of its positional rectangles
                    msg, rects = gen_update(r, spec.sess, spec.size, kinds=["raw", "rre"], full=(r.random() < .4))
                    rects = list(rects) + [enc_qemu()]
                    msg = None
                    spec_z = [rc for rc in rects if rc.kind == "zrle"]
                    msg = spec.sess.update(rects)
                elif r.random() < .08:
                    rects = []
                    msg = spec.sess.update([])          # an update without rectangles
                else:
                    msg, rects = gen_update(r, spec.sess, spec.size, full=full)
                spec.updates.append(rects)
                if r.random() < .4 and len(msg) > 2:
                    c1 = r.randrange(1, len(msg))
                    parts = [msg[:c1], msg[c1:]]
                else:
                    parts = [msg]
                lost = False
                for pi, part in enumerate(parts):
                    if pi and r.random() < getattr(spec, "midloss", 0):
                        # the connection goes down while the update is half delivered (a capture / expect may be waiting)
                        clean = r.random() < .5
                        spec.events.append(("lose", clean))
                        note("lose-clean" if clean else "lose-error", v.lose(clean))
                        lost = True
                        break
                    if pi and getattr(spec, "midfire", False) and v.reactor.getDelayedCalls() and r.random() < .6:
                        # a timer fires while the update is half delivered (a capture may start mid-update)
                        nxt = min(v.reactor.getDelayedCalls(), key=lambda c: c.getTime())
                        name = getattr(nxt.func, "__name__", "")
                        t, tk = v.fire()
                        spec.events.append(("fire",))
                        note("timeout" if name == "error" else ("stop" if name == "stop" else "timer"), tk, t)
                    spec.events.append(("recv", part))
                    note("recv", v.feed(part))
                if lost:
                    break
        # a command of the script raised (the rest of the chain is skipped, the connection stays up): a loss that the schedule
        # had planned for later still happens - the server goes away while vncdo sits there
        flat = [t for e in res["events"] for t in e[1]]
        if faults and any(t.startswith("chainfailed") for t in flat) and not any(e[0].startswith("lose") for e in res["events"]) \
                and faults[0][1] in ("lose-clean", "lose-error") and v.reactor.stopped_at is None:
            kind = faults.pop(0)[1]
            spec.events.append(("lose", kind == "lose-clean"))
            note(kind, v.lose(kind == "lose-clean"))
        # after the script: the connection goes down (vncdo closed it, so the transport reports a clean close)
        flat = [t for e in res["events"] for t in e[1]]
        if "close" in flat and not any(e[0].startswith("lose") for e in res["events"]) and v.reactor.stopped_at is None and not getattr(spec, "close_hangs", False):
            # normally a clean close; the peer may also reset while the client's close is still in progress (unsent data is lost)
            clean = not (r.random() < getattr(spec, "close_reset", 0))
            spec.events.append(("lose", clean))
            note("lose-clean" if clean else "lose-error", v.lose(clean))
            while v.reactor.getDelayedCalls() and v.reactor.stopped_at is None:
                calls = v.reactor.getDelayedCalls()
                nxt = min(calls, key=lambda c: c.getTime())
                name = getattr(nxt.func, "__name__", "")
                t, tk = v.fire()
                spec.events.append(("fire",))
                note("timeout" if name == "error" else ("stop" if name == "stop" else "timer"), tk, t)
        # whatever is still scheduled (reactor.stop after done(), the --timeout) runs; chain timers of a dead connection too
        guard = 0
        while v.reactor.getDelayedCalls() and v.reactor.stopped_at is None and guard < 500 and (
                any(e[0].startswith("lose") for e in res["events"]) or spec.timeout is not None):
            guard += 1
            calls = v.reactor.getDelayedCalls()
            nxt = min(calls, key=lambda c: c.getTime())
            name = getattr(nxt.func, "__name__", "")
            t, tk = v.fire()
            spec.events.append(("fire",))
            note("timeout" if name == "error" else ("stop" if name == "stop" else "timer"), tk, t)
        # a script that has not finished must be waiting for SOMETHING: a timer, or a completed update (the waiter).
        # connection up, commands left, nothing scheduled, nobody listening for updates = it can never finish
        flat = [t for e in res["events"] for t in e[1]]
        res["stalled"] = bool("close" not in flat and not any(e[0].startswith("lose") for e in res["events"])
                              and not any(t.startswith("chainfailed") or t.startswith("raise:") for t in flat)
                              and v.reactor.stopped_at is None and not v.reactor.getDelayedCalls() and v.proto.deferred is None
                              and "made" in flat)
        res["zlog"] = v.zlog
        res["screen"] = screen_rgb(v.proto)
        res["final_status"] = v.status()
        res["finished"] = "close" in [t for e in res["events"] for t in e[1]]
        return res
    finally:
        v.close()



# ----------------------------------------------------------------------------- generators

def gen_words(r, kinds, n, have_images, spec):
    words = []
    pos = (0, 0)            # where the script has left the pointer
    for _ in range(n):
        k = r.choice(kinds)
        if k == "key":
            words += ["key", r.choice(["a", "ctrl-c", "enter", "Z", "-"])]
        elif k == "type":
            words += ["type", r.choice(["hi", "x", "Hey"])]
        elif k == "move":
            pos = (r.randrange(0, 40), r.randrange(0, 40))
            words += ["move", str(pos[0]), str(pos[1])]
        elif k == "click":
            words += ["click", str(r.randint(1, 3))]
        elif k == "mdown":
            words += [r.choice(["mdown", "mup"]), str(r.randint(1, 3))]
        elif k == "drag":
            tgt = (r.randrange(0, 12), r.randrange(0, 12))
            if r.random() < .25:
                tgt = pos       # a drag of length zero: to where the pointer already is
            elif r.random() < .2:
                tgt = (pos[0] + r.choice([-1, 0, 1]), pos[1] + r.choice([0, 1])) if pos[0] > 0 else (pos[0] + 1, pos[1])
            pos = tgt
            words += ["drag", str(pos[0]), str(pos[1])]
        elif k == "pause":
            words += [r.choice(["pause", "sleep"]), r.choice(PAUSES)]
        elif k == "capture":
            words += ["capture", "cap%d.png" % len([w_ for w_ in words if w_.startswith("cap")])]
        elif k == "rcapture":
            words += ["rcapture", "cap%d.png" % len([w_ for w_ in words if w_.startswith("cap")]), str(r.randrange(0, 6)), str(r.randrange(0, 6)),
                      str(r.randint(1, 12)), str(r.randint(1, 10))]
        elif k == "expect" and have_images:
            words += ["expect", r.choice(have_images), r.choice(list(RMS))]
        elif k == "rexpect" and have_images:
            words += ["rexpect", r.choice(have_images), str(r.randrange(0, 6)), str(r.randrange(0, 6)), r.choice(list(RMS))]
    return words


def gen_update(r, sess, size, kinds=None, full=False):
    """a FramebufferUpdate within the desktop; full=True: one raw rectangle covering the desktop"""
    w, h = size
    if full:
        rc = enc_raw(r, sess.pf, 0, 0, w, h)
        return sess.update([rc]), [rc]
    rects = []
    for _ in range(r.choice([1, 1, 2, 3])):
        kind = r.choice(kinds or ["raw", "rre", "hextile", "zrle", "corre"])
        rw, rh = r.randint(1, w), r.randint(1, h)
        x, y = r.randrange(0, w - rw + 1), r.randrange(0, h - rh + 1)
        rects.append(ENCODERS[kind](r, sess.pf, x, y, rw, rh))
    return sess.update(rects, lastrect=(r.random() < .2), r=r), rects
