"""Stand-alone demonstrations of the defects of the pinned tree (DESIGN.md section 9).

Each function runs the REAL code from VERIF_REPO (default /repo) on one concrete
failing input and returns (violated, detail).  `python demos.py` prints one line
per defect; on the repaired tree every line says ok.  These inputs are also in
the corpus of the corresponding ./check.
"""
from __future__ import annotations
import os, sys, struct, io, zlib
sys.path.insert(0, os.path.join(os.path.dirname(__file__), "..", "harness"))
from core import *  # noqa
from unittest import mock


class Fac:
    password = None
    username = None
    shared = True
    pseudocursor = False
    nocursor = False
    pseudodesktop = True
    qemu_extended_key = True
    last_rect = True
    force_caps = False

    def __init__(self):
        self.events = []

    def clientConnectionMade(self, p):
        self.events.append("made")

    def clientConnectionFailed(self, p, reason):
        self.events.append("failed")

    def clientConnectionLost(self, p, reason):
        self.events.append("lost")


def mk(cls=None, **kw):
    cls = cls or vclient.VNCDoToolClient
    tr = []
    c = cls()
    c.transport = FakeTransport(tr)
    c.factory = Fac()
    for k, v in kw.items():
        setattr(c.factory, k, v)
    return c, tr


RGB32 = bytes.fromhex("20180001" "00ff00ff00ff" "000810" "000000")


def handshake33(w=8, h=8, pf=RGB32, name=b"x"):
    return (b"RFB 003.003\n" + struct.pack("!I", 1) +
            struct.pack("!HH", w, h) + pf + struct.pack("!I", len(name)) + name)


def run(c, data, secs=2.0):
    try:
        with Budget(secs):
            c.dataReceived(data)
        return None
    except BaseException as e:  # noqa
        return exc_class(e)


def D01():
    c, tr = mk(vclient.VMWareClient)
    run(c, handshake33())
    upd = struct.pack("!BxHHHHHi", 0, 1, 0, 0, 1, 1, 0) + b"\1\2\3\4"
    assert len(upd) == 20
    e = run(c, upd)
    return e is not None, f"VMware client, 20-byte 1x1 raw update chunk -> {e}"


def D02a():
    c, tr = mk()
    run(c, handshake33())
    body = struct.pack("!I", 1) + b"\0\0\0\0" + b"\xff\0\0\0" + bytes([1, 1, 2, 2])
    upd = struct.pack("!BxHHHHHi", 0, 1, 0, 0, 4, 4, 4) + body
    e = run(c, upd)
    ok = e is None and c.screen is not None and c.screen.getpixel((1, 1)) == (255, 0, 0) and c.screen.getpixel((0, 0)) == (0, 0, 0)
    return not ok, f"CoRRE rectangle with one sub-rectangle -> {e}"


def D02a2():
    c, tr = mk()
    run(c, handshake33())
    body = struct.pack("!I", 2) + b"\0\0\0\0" + b"\xff\0\0\0" + bytes([1, 1, 1, 1]) + b"\0\xff\0\0" + bytes([2, 2, 1, 1])
    upd = struct.pack("!BxHHHHHi", 0, 1, 0, 0, 4, 4, 4) + body
    e = run(c, upd)
    ok = e is None and c.screen is not None and c.screen.getpixel((1, 1)) == (255, 0, 0) and c.screen.getpixel((2, 2)) == (0, 255, 0)
    return not ok, f"CoRRE rectangle with two sub-rectangles -> {e}"


def zrle_update(x, y, w, h, raw):
    z = zlib.compressobj()
    comp = z.compress(raw) + z.flush(zlib.Z_SYNC_FLUSH)
    return struct.pack("!BxHHHHHi", 0, 1, x, y, w, h, 16) + struct.pack("!I", len(comp)) + comp


def D02b():
    c, tr = mk()
    run(c, handshake33())
    # 3x2 tile, palette of 2: rows are padded to a byte: row0 = 1,0,1 ; row1 = 0,1,1
    raw = bytes([2]) + b"\0\0\0" + b"\xff\xff\xff" + bytes([0b10100000, 0b01100000])
    e = run(c, zrle_update(0, 0, 3, 2, raw))
    exp = [(255,) * 3, (0,) * 3, (255,) * 3, (0,) * 3, (255,) * 3, (255,) * 3]
    got = list(c.screen.getdata()) if c.screen else None
    return e is not None or got != exp, f"ZRLE 3x2 packed-palette tile -> exc={e} pixels={got}"


def D02c():
    c, tr = mk()
    bgr16 = vclient.BGR16.to_bytes()
    run(c, handshake33(pf=bgr16))
    # solid tile (subencoding 1) with a 2-byte CPIXEL, followed by nothing
    raw = bytes([1]) + struct.pack("<H", 0xF800)
    e = run(c, zrle_update(0, 0, 2, 2, raw))
    got = list(c.screen.getdata()) if c.screen else None
    return e is not None or got != [(255, 0, 0)] * 4, f"ZRLE solid tile in BGR16 (2-byte CPIXEL) -> exc={e} pixels={got}"


def D06():
    c, tr = mk()
    run(c, handshake33(8, 8))
    upd = struct.pack("!BxHHHHHi", 0, 1, 0, 0, 20, 10, -223)
    run(c, upd)
    del tr[:]
    c.refreshScreen()
    req = tr[0][1]
    return req != struct.pack("!BBHHHH", 3, 0, 0, 0, 20, 10), f"refresh after DesktopSize 20x10 requests {req.hex()}"


def D10():
    from vncdotool import command
    bad = []
    for w in ["", "d", "g", "ra", "dra", "rag"]:
        f = mock.Mock()
        try:
            command.build_command_list(f, [w, "1", "2"])
            bad.append(w)
        except command.CommandParseError:
            pass
        except Exception as e:
            bad.append((w, repr(e)))
    return bool(bad), f"near-miss command words accepted as drag: {bad}"


def D12():
    c, tr = mk()
    run(c, handshake33(8, 8))
    upd = struct.pack("!BxHHHHHi", 0, 1, 2, 3, 1, 1, 0) + b"\xff\0\0\0"
    run(c, upd)
    sz = c.screen.size
    ok = sz == (3, 4) and c.screen.getpixel((2, 3)) == (255, 0, 0) and c.screen.getpixel((0, 0)) == (0, 0, 0)
    return not ok, f"first rectangle 1x1 at (2,3) -> screen size {sz}"


def ard(c, secret, g, mod, sk, L, user, pw):
    c.factory.username = user
    c.factory.password = pw
    c.generator, c.keyLen = g, L
    c.modulus = mod.to_bytes(L, "big")
    c.serverKey = sk.to_bytes(L, "big")
    with mock.patch("os.urandom", lambda n: secret.to_bytes(n, "big")):
        c._encryptArd()


def D14a():
    c, tr = mk()
    # modulus 2^127-1 (prime), L=16, g=2, secret 1 -> pub = 2 -> long_to_bytes gives 1 byte
    L = 16
    mod = (1 << 127) - 1
    try:
        ard(c, 1, 2, mod, 5, L, "u", "p")
    except Exception as e:
        return True, f"ARD raises {e!r}"
    out = tr[-1][1]
    return len(out) != 128 + L, f"ARD reply length {len(out)} (want {128 + L}) when the public key has leading zero bytes"


def D14b():
    c, tr = mk()
    L = 16
    mod = (1 << 127) - 1
    try:
        ard(c, 12345, 2, mod, 5, L, "é" * 32, "p")
    except Exception as e:
        return True, f"ARD with 64-byte non-ASCII user name raises {type(e).__name__}"
    out = tr[-1][1]
    return len(out) != 128 + L, f"ARD reply length {len(out)}"


def D15():
    c, tr = mk(rfb.RFBClient)
    e = run(c, b"RFB 003.003\n" + bytes(8))
    return e is not None, f"3.3 refusal with empty reason -> {e}"


def D15b():
    c, tr = mk(rfb.RFBClient)
    calls = []
    c.vncAuthFailed = lambda r: calls.append(r)
    e = run(c, b"RFB 003.008\n\x01\x01" + struct.pack("!II", 1, 2) + b"abcdefgh")
    return e is not None or len(calls) != 1, f"3.8 failure + trailing bytes: vncAuthFailed calls={calls} exc={e}"


# ---- proxy

def mkproxy(password_required=False):
    from vncdotool import loggingproxy as lp
    from twisted.internet import reactor
    rec = []
    fac = lp.VNCLoggingServerFactory("h", 1)
    fac.password_required = password_required

    class Out:
        def write(self, s):
            rec.append(s)
    fac.output = Out()
    captured = {}
    with mock.patch.object(reactor, "connectTCP", lambda h, p, f: captured.setdefault("f", f)):
        srv = fac.buildProtocol(None)
        tr_v = []
        srv.transport = FakeTransport(tr_v, "v:")
        srv.makeConnection(srv.transport) if False else None
        srv.connectionMade()
    cf = captured["f"]
    cl = cf.buildProtocol(None)
    tr_s = []
    cl.transport = FakeTransport(tr_s, "s:")
    cl.connectionMade()
    return srv, cl, tr_v, tr_s, rec


def viewer_hs(ver=b"RFB 003.003\n", sec=b"", init=b"\1"):
    return ver + sec + init


def prun(srv, data, secs=2.0):
    try:
        with Budget(secs):
            srv.dataReceived(data)
        return None
    except BaseException as e:  # noqa
        return exc_class(e)


def D16a():
    srv, cl, tv, ts, rec = mkproxy()
    prun(srv, viewer_hs())
    e = prun(srv, struct.pack("!BxxxI", 6, 3) + b"abc")
    fwd = b"".join(t[1] for t in ts if t[0] == "s:write")
    return e is not None or not fwd.endswith(b"abc"), f"ClientCutText through the proxy -> {e}"


def D16b():
    srv, cl, tv, ts, rec = mkproxy()
    prun(srv, viewer_hs())
    e = prun(srv, struct.pack("!BxH", 2, 2))
    e2 = prun(srv, struct.pack("!ii", 0, 1))
    return (e or e2) is not None, f"SetEncodings split after its header -> {e or e2}"


def D16c():
    srv, cl, tv, ts, rec = mkproxy()
    prun(srv, viewer_hs())
    e = prun(srv, struct.pack("!BBHII", 255, 0, 1, 0x61, 30) + struct.pack("!BBxxI", 4, 1, 0x62))
    txt = "".join(rec)
    return e is not None or "keydown a" not in txt or "keydown b" not in txt, f"QEMU extended key event -> exc={e} rec={txt!r}"


def D16d():
    srv, cl, tv, ts, rec = mkproxy()
    prun(srv, viewer_hs())
    msg = struct.pack("!BBxxI", 4, 1, 0x01000041)
    e = prun(srv, msg)
    fwd = b"".join(t[1] for t in ts if t[0] == "s:write")
    return e is not None or not fwd.endswith(msg), f"KeyEvent keysym 0x01000041 through the proxy -> {e}"


def D16e():
    """the decoder used for logging must stay in step with the pixel format in force (native, or the viewer's)"""
    srv, cl, tv, ts, rec = mkproxy()
    prun(srv, viewer_hs())
    pf8 = rfb.PixelFormat(8, 8, False, True, 7, 7, 3, 0, 3, 6)
    prun(cl, struct.pack("!HH", 4, 4) + pf8.to_bytes() + struct.pack("!I", 1) + b"x")
    upd = struct.pack("!BxHHHHHi", 0, 1, 0, 0, 4, 1, 0) + b"\1\2\3\4" + b"\x02"
    e = prun(cl, upd)
    lg = cl.vnclog
    insync = lg is None or (len(lg._packet) == 0 and lg._expected_handler == lg._handleConnection)
    # and with a format selected by the viewer
    srv2, cl2, tv2, ts2, rec2 = mkproxy()
    prun(srv2, viewer_hs())
    prun(cl2, struct.pack("!HH", 4, 4) + RGB32 + struct.pack("!I", 1) + b"x")
    prun(srv2, struct.pack("!Bxxx", 0) + vclient.BGR16.to_bytes())
    upd2 = struct.pack("!BxHHHHHi", 0, 1, 0, 0, 2, 1, 0) + b"\1\2\3\4" + b"\x02"
    e2 = prun(cl2, upd2)
    lg2 = cl2.vnclog
    insync2 = lg2 is None or (len(lg2._packet) == 0 and lg2._expected_handler == lg2._handleConnection)
    return not (insync and insync2) or e is not None or e2 is not None, \
        f"logging decoder in step after a raw update: native 8-bit format {insync}, viewer-selected BGR16 {insync2}; exceptions {e} {e2}"


def D17a():
    srv, cl, tv, ts, rec = mkproxy()
    prun(srv, viewer_hs())
    k = lambda s: struct.pack("!BBxxI", 4, 1, s)
    m = k(0x61)
    prun(srv, m[:3])
    prun(srv, m[3:])
    n1 = len(rec)
    prun(srv, k(0x62))
    n2 = len(rec)
    prun(srv, k(0x63))
    n3 = len(rec)
    return (n1, n2, n3) != (1, 2, 3), f"split KeyEvent then two more: recorded after each = {(n1, n2, n3)}"


def D17b():
    srv, cl, tv, ts, rec = mkproxy()
    e = prun(srv, b"RFB 003.008\n" + b"\x02" + bytes(range(170, 186)) + b"\x01" + struct.pack("!BBxxI", 4, 1, 0x61))
    txt = "".join(rec)
    return e is not None or "keydown a" not in txt, f"3.8 viewer with VNC auth -> exc={e} rec={txt!r}"


def D18():
    import shlex
    srv, cl, tv, ts, rec = mkproxy()
    prun(srv, viewer_hs())
    bad = []
    for ch in "#'\"\\ ":
        del rec[:]
        prun(srv, struct.pack("!BBxxI", 4, 1, ord(ch)))
        line = "".join(rec)
        try:
            lex = shlex.shlex(io.StringIO(line), posix=True)
            lex.whitespace_split = True
            toks = list(lex)
        except ValueError as e:
            toks = repr(e)
        ok = (isinstance(toks, list) and len(toks) == 4 and toks[0] == "pause" and toks[2] == "keydown"
              and (vclient.KEYMAP.get(toks[3]) or (len(toks[3]) == 1 and ord(toks[3]))) == ord(ch))
        if not ok:
            bad.append((ch, toks))
    return bool(bad), f"recorded special characters do not tokenise back: {bad}"


def D20():
    from vncdotool import command
    bad = []
    for s in ["a:1:2", "[::1]junk:3", "[::1]x"]:
        try:
            bad.append((s, command.parse_server(s)[1:]))
        except ValueError:
            pass
    return bool(bad), f"addresses outside the grammar accepted: {bad}"


def D04():
    c, tr = mk(force_caps=True)
    try:
        c.keyPress("A-B")
    except TypeError as e:
        return True, f"force_caps: keyPress('A-B') raises {e!r}"
    evs = [t[1] for t in tr]
    want = [struct.pack("!BBxxI", 4, d, k) for k, d in ((65, 1), (66, 1), (66, 0), (65, 0))]
    return evs != want, f"force_caps: keyPress('A-B') wrote {[e.hex() for e in evs]}"


def D06b():
    import io
    c, tr = mk(nocursor=True)
    c.connectionMade()
    c.dataReceived(handshake33())
    out, res = io.BytesIO(), []
    c.captureScreen(out, format="png").addBoth(res.append)
    # the first completed update carries only a cursor shape (2x1): no pixel data, the client has no screen yet
    c.dataReceived(struct.pack("!BxH", 0, 1) + struct.pack("!HHHHi", 0, 0, 2, 1, -239) + bytes(8) + bytes(1))
    failed = bool(res) and not isinstance(res[0], vclient.VNCDoToolClient)
    return failed, f"capture pending, cursor-only update arrives first: capture ended with {res!r}, {len(out.getvalue())} bytes written"


def _forever(t0b):
    """two viewers of ONE --forever factory; viewer A connects at second 1000, viewer B at t0b; A leaves while B goes on"""
    import tempfile, shutil
    from proxygen import Proxy
    from twisted.python.failure import Failure
    from twisted.internet.error import ConnectionDone
    d = tempfile.mkdtemp(prefix="verif-demo-")
    try:
        key = lambda k, dn: struct.pack("!BBxxI", 4, dn, k)
        a = Proxy(False, 10_000_000, outdir=d)
        a.viewer_sends(b"RFB 003.008\n\x01\x01" + key(0x61, 1))
        b = Proxy(False, t0b, fac=a.fac)
        b.viewer_sends(b"RFB 003.008\n\x01\x01" + key(0x62, 1))
        a.srv.connectionLost(Failure(ConnectionDone()))
        b.viewer_sends(key(0x62, 0) + key(0x63, 1))
        b.srv.connectionLost(Failure(ConnectionDone()))
        for q in (a, b):
            f = getattr(q.srv.recorder, "__self__", None)
            if f is not None and not f.closed:
                f.flush()
        return sorted(open(os.path.join(d, f)).read() for f in os.listdir(d))
    finally:
        shutil.rmtree(d, ignore_errors=True)


def D17c():
    got = _forever(10_020_000)
    want = sorted(["pause 0.0000 keydown a \n", "pause 0.0000 keydown b \npause 0.0000 keyup b \npause 0.0000 keydown c \n"])
    return got != want, f"--forever, viewer B still typing when viewer A disconnects: scripts {got!r}"


def D17d():
    got = _forever(10_000_000)
    want = sorted(["pause 0.0000 keydown a \n", "pause 0.0000 keydown b \npause 0.0000 keyup b \npause 0.0000 keydown c \n"])
    return got != want, f"--forever, two viewers connecting within the same second: scripts {got!r}"


ALL = [D17c, D17d, D04, D06b, D01, D02a, D02a2, D02b, D02c, D06, D10, D12, D14a, D14b, D15, D15b,
       D16a, D16b, D16c, D16d, D16e, D17a, D17b, D18, D20]

if __name__ == "__main__":
    sel = sys.argv[1:]
    for f in ALL:
        if sel and f.__name__ not in sel:
            continue
        try:
            v, d = f()
        except BaseException as e:  # noqa
            v, d = True, f"demo raised {type(e).__name__}: {e}"
        print(("DEFECT " if v else "ok     ") + f.__name__ + ": " + d)
